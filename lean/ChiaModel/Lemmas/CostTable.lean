import ChiaModel.Lemmas.CondInv
/-
C04: the condition cost reported per spend and per bundle is the sum prescribed by the cost table.
-/
namespace ChiaModel.Cond
open ChiaModel

/-- elements of a (possibly improper) list -/
def listElems : Sexp → List Sexp
  | .pair a r => a :: listElems r
  | .atom _ => []

/-- **The cost table, per condition**: what one condition `c` of an accepted spend costs. -/
def condCostOf (flags : Nat) (c : Sexp) : Nat :=
  match first c with
  | .error _ => 0
  | .ok opn =>
    match parseOpcode opn with
    | none => if hasFlag flags Gen.flagCostConditions then Gen.genericConditionCost else 0
    | some op =>
      preCharge flags op +
        (match rest c with
         | .error _ => 0
         | .ok args => match parseArgs args op flags with
           | .ok cva => condExtraCost cva
           | .error _ => 0)

/-- cost of one spend: the per-spend charge plus its conditions -/
def spendCostOf (flags : Nat) (sp : Sexp) : Nat :=
  match parseSingleSpend sp with
  | .ok (_, _, _, conds) => spendCharge flags + ((listElems conds).map (condCostOf flags)).sum
  | .error _ => 0

theorem bump_cc (s : CSt) (c : Nat) : (bump s c).spend.conditionCost = s.spend.conditionCost + c
    ∧ (bump s c).ret.conditionCost = s.ret.conditionCost + c ∧ (bump s c).ret.spends = s.ret.spends := by
  simp [bump]

theorem stepCond_cost {env : Env} {s : CSt} {m : Nat} {c : Sexp} {s' : CSt} {m' : Nat}
    (h : stepCond env s m c = .ok (s', m')) :
    s'.spend.conditionCost = s.spend.conditionCost + condCostOf env.flags c ∧
    s'.ret.conditionCost = s.ret.conditionCost + condCostOf env.flags c ∧
    m = m' + condCostOf env.flags c ∧ s'.ret.spends = s.ret.spends := by
  unfold stepCond at h
  obtain ⟨opn, hf, h⟩ := bind_ok h
  unfold condCostOf
  rw [hf]; simp only
  cases ho : parseOpcode opn with
  | none =>
    rw [ho] at h; simp only at h ⊢
    by_cases hnu : hasFlag env.flags Gen.flagNoUnknownConds = true
    · rw [if_pos hnu] at h; cases h
    · rw [if_neg hnu] at h
      by_cases hcc : hasFlag env.flags Gen.flagCostConditions = true
      · rw [if_pos hcc] at h ⊢
        obtain ⟨a1, a2, a3⟩ := addCost_ok h
        subst a1; simp only [bump]
        refine ⟨trivial, trivial, ?_, trivial⟩
        omega
      · rw [if_neg hcc] at h ⊢
        injection h with h; injection h with h1 h2; subst h1; subst h2; simp
  | some op =>
    rw [ho] at h; simp only at h ⊢
    obtain ⟨⟨s2, m2⟩, ha, h⟩ := bind_ok h
    obtain ⟨⟨s3, extra⟩, hpc, h⟩ := bind_ok h
    obtain ⟨args, cva, hr, hpa, happ, hex⟩ := pureCond_ok hpc
    obtain ⟨a1, a2, a3⟩ := addCost_ok ha
    obtain ⟨c1, c2, c3⟩ := addCost_ok h
    have hfr := applyCond_frame env _ _ _ happ
    have f1 := hfr.1
    have f2 := hfr.2.1
    have f3 := hfr.2.2.1
    clear hfr
    rw [hr]; simp only [hpa]
    subst a1; subst c1; subst hex
    dsimp only at c2 c3 happ
    simp only [bump, visit] at f1 f2 f3 ⊢
    refine ⟨by omega, by omega, by omega, f3⟩

theorem condLoop_cost (env : Env) : ∀ (t : Sexp) (s : CSt) (m : Nat) (s' : CSt) (m' : Nat),
    condLoop env t s m = .ok (s', m') →
    s'.spend.conditionCost = s.spend.conditionCost + ((listElems t).map (condCostOf env.flags)).sum ∧
    s'.ret.conditionCost = s.ret.conditionCost + ((listElems t).map (condCostOf env.flags)).sum ∧
    m = m' + ((listElems t).map (condCostOf env.flags)).sum ∧ s'.ret.spends = s.ret.spends := by
  intro t
  induction t with
  | atom b =>
    intro s m s' m' h
    cases b with
    | nil => simp only [condLoop] at h; injection h with h; injection h with h1 h2; subst h1; subst h2; simp [listElems]
    | cons x xs => simp [condLoop] at h
  | pair c nxt _ ih =>
    intro s m s' m' h
    simp only [condLoop] at h
    obtain ⟨⟨s1, m1⟩, hs, h⟩ := bind_ok h
    obtain ⟨e1, e2, e3, e4⟩ := stepCond_cost hs
    obtain ⟨i1, i2, i3, i4⟩ := ih s1 m1 s' m' h
    simp only [listElems, List.map_cons, List.sum_cons]
    refine ⟨by omega, by omega, by omega, by rw [i4, e4]⟩

theorem processSingleSpend_cost {env : Env} {ret : Bundle} {st : PState} {parent ph amount conds : Sexp} {cc m : Nat}
    {ret' : Bundle} {st' : PState} {m' : Nat}
    (h : processSingleSpend env ret st parent ph amount conds cc m = .ok ((ret', st'), m')) :
    ret'.spends.map (·.conditionCost) = ret.spends.map (·.conditionCost) ++
        [spendCharge env.flags + ((listElems conds).map (condCostOf env.flags)).sum] ∧
    ret'.conditionCost = ret.conditionCost + (spendCharge env.flags + ((listElems conds).map (condCostOf env.flags)).sum) ∧
    m = m' + (spendCharge env.flags + ((listElems conds).map (condCostOf env.flags)).sum) := by
  obtain ⟨s0, m1, s, hh, hle, hm1, hl, hf⟩ := processSingleSpend_ok h
  obtain ⟨parentId, puzzleHash, amountBuf, myAmount, _, _, _, _, _, _, _, rfl⟩ := spendHeader_ok hh
  obtain ⟨c1, c2, c3, c4⟩ := condLoop_cost env conds _ m1 s m' hl
  simp only [finishSpend] at hf
  injection hf with hf1 hf2
  subst hf1
  have hnv : ∀ x : CSt, (newSpendVisit env x).spend.conditionCost = x.spend.conditionCost ∧ (newSpendVisit env x).ret = x.ret := by
    intro x; unfold newSpendVisit; split <;> simp
  rw [(hnv _).1] at c1
  rw [(hnv _).2] at c2 c4
  simp only [bump] at c1 c2 c4
  refine ⟨?_, by simp only; omega, by omega⟩
  simp only [List.map_append, List.map_cons, List.map_nil, c4]
  congr 2
  have : (postSpend env s.spend).conditionCost = s.spend.conditionCost := by unfold postSpend; split <;> rfl
  rw [this, c1]; omega

theorem spendLoop_cost (env : Env) (cc : Nat) : ∀ (t : Sexp) ret st n m ret' st' m',
    spendLoop env cc t ret st n m = .ok ((ret', st'), m') →
    ret'.spends.map (·.conditionCost) = ret.spends.map (·.conditionCost) ++ (listElems t).map (spendCostOf env.flags) ∧
    ret'.conditionCost = ret.conditionCost + ((listElems t).map (spendCostOf env.flags)).sum ∧
    m = m' + ((listElems t).map (spendCostOf env.flags)).sum := by
  intro t
  induction t with
  | atom b =>
    intro ret st n m ret' st' m' h
    cases b with
    | nil => simp only [spendLoop] at h; injection h with h; injection h with h1 h2; injection h1 with h1 h3; subst h1; subst h2; simp [listElems]
    | cons x xs => simp [spendLoop] at h
  | pair sp nxt _ ih =>
    intro ret st n m ret' st' m' h
    simp only [spendLoop] at h
    split at h
    · cases h
    · cases hp : parseSingleSpend sp with
      | error e => rw [hp] at h; cases h
      | ok q =>
        obtain ⟨parent, ph, amount, conds⟩ := q
        rw [hp] at h; simp only at h
        obtain ⟨⟨⟨r1, s1⟩, m1⟩, h1, h⟩ := bind_ok h
        obtain ⟨p1, p2, p3⟩ := processSingleSpend_cost h1
        obtain ⟨i1, i2, i3⟩ := ih r1 s1 (n - 1) m1 ret' st' m' h
        have hsc : spendCostOf env.flags sp = spendCharge env.flags + ((listElems conds).map (condCostOf env.flags)).sum := by
          simp only [spendCostOf, hp]
        simp only [listElems, List.map_cons, List.sum_cons, hsc]
        refine ⟨by rw [i1, p1]; simp, by omega, by omega⟩

end ChiaModel.Cond
