import ChiaModel.Lemmas.BlobHInv
/-
C18: `get_proof_of_inclusion` on the blocks is `HT.proofOf` on the abstraction (all nodes clean).
-/
namespace ChiaModel.Blob
open List M

/-- `proofLayers` along `lineage`, fused: walk the parent pointers from `idx` (whose parent is `p`) -/
def layersUp (bl : List Block) : Nat → Nat → Option Nat → Except Err (List (Side × Hash × Hash))
  | _, _, none => .ok []
  | 0, _, some _ => .error .hang
  | f+1, idx, some pi =>
    match bl[pi]? with
    | none => .error .err
    | some pb =>
      match layersUp bl f pi pb.node.parent with
      | .error e => .error e
      | .ok rest =>
        if pb.dirty then .error .err
        else
          match pb.node with
          | .leaf _ _ _ _ => .error .panic
          | .internal ph _ l r =>
            if idx ≠ r ∧ idx ≠ l then .error .err
            else
              match bl[if idx = r then l else r]? with
              | none => .error .err
              | some sb => .ok ((if l = idx then Side.right else Side.left, sb.node.hash, ph) :: rest)

/-- the fused walk computes what the two passes compute, whenever it succeeds -/
theorem layersUp_ok (bl : List Block) (f : Nat) : ∀ (idx : Nat) (p : Option Nat) (ls : List (Side × Hash × Hash)),
    layersUp bl f idx p = .ok ls →
    ∃ lin, lineage bl f p = .ok lin ∧ proofLayers bl idx lin = .ok ls := by
  induction f with
  | zero =>
    intro idx p ls h
    cases p with
    | none => simp only [layersUp, Except.ok.injEq] at h; subst h; exact ⟨[], rfl, rfl⟩
    | some pi => simp [layersUp] at h
  | succ f ih =>
    intro idx p ls h
    cases p with
    | none => simp only [layersUp, Except.ok.injEq] at h; subst h; exact ⟨[], rfl, rfl⟩
    | some pi =>
      simp only [layersUp] at h
      cases hb : bl[pi]? with
      | none => rw [hb] at h; simp at h
      | some pb =>
        rw [hb] at h
        simp only at h
        cases hr : layersUp bl f pi pb.node.parent with
        | error e => rw [hr] at h; simp at h
        | ok rest =>
          rw [hr] at h
          simp only at h
          obtain ⟨lin, hl, hp⟩ := ih pi pb.node.parent rest hr
          refine ⟨(pi, pb) :: lin, by simp [lineage, hb, hl], ?_⟩
          simp only [proofLayers]
          cases hd : pb.dirty with
          | true => rw [hd] at h; simp at h
          | false =>
            rw [hd] at h
            simp only [Bool.false_eq_true, if_false] at h ⊢
            cases hn : pb.node with
            | leaf _ _ _ _ => rw [hn] at h; simp at h
            | internal ph pp l r =>
              rw [hn] at h
              simp only at h ⊢
              by_cases hc : idx ≠ r ∧ idx ≠ l
              · rw [if_pos hc] at h; simp at h
              · rw [if_neg hc] at h ⊢
                cases hs : bl[if idx = r then l else r]? with
                | none => rw [hs] at h; simp at h
                | some sb =>
                  rw [hs] at h
                  simp only [Except.ok.injEq] at h
                  simp only [hp, h]

theorem layersUp_mono (bl : List Block) (f : Nat) : ∀ (idx : Nat) (p : Option Nat) (ls : List (Side × Hash × Hash)),
    layersUp bl f idx p = .ok ls → ∀ n, layersUp bl (f + n) idx p = .ok ls := by
  induction f with
  | zero =>
    intro idx p ls h n
    cases p with
    | none =>
      simp only [layersUp, Except.ok.injEq] at h; subst h
      cases n <;> rfl
    | some pi => simp [layersUp] at h
  | succ f ih =>
    intro idx p ls h n
    cases p with
    | none =>
      simp only [layersUp, Except.ok.injEq] at h; subst h
      have e : f + 1 + n = (f + n) + 1 := by omega
      rw [e]; rfl
    | some pi =>
      have e : f + 1 + n = (f + n) + 1 := by omega
      rw [e]
      simp only [layersUp] at h ⊢
      cases hb : bl[pi]? with
      | none => rw [hb] at h; simp at h
      | some pb =>
        rw [hb] at h
        simp only at h ⊢
        cases hr : layersUp bl f pi pb.node.parent with
        | error e => rw [hr] at h; simp at h
        | ok rest =>
          rw [hr] at h
          rw [ih pi pb.node.parent rest hr n]
          exact h

theorem HT.proofOf_none_of_not_mem (k : KeyId) (t : HT) (h : k ∉ t.erase.keys) : t.proofOf k = none := by
  induction t with
  | leaf k' v hh =>
    simp only [HT.erase, T.keys, List.mem_singleton] at h
    simp only [HT.proofOf]
    rw [if_neg (fun e => h e.symm)]
  | node hh d l r ihl ihr =>
    simp only [HT.erase, T.keys, List.mem_append, not_or] at h
    simp only [HT.proofOf, ihl h.1, ihr h.2]

/-- the walk from a leaf of the stored subtree `c` up to the root of `c`, then on -/
theorem layersUp_sub {bl : List Block} (c : IT) :
    ∀ (pp : Option Nat), Rep bl pp c → c.indices.Nodup → (c.leaves.map (·.2.1)).Nodup →
    (c.toHT bl).allClean = true →
    ∀ (idx : Nat) (k : KeyId) (v : ValueId) (h : Hash), (idx, k, v, h) ∈ c.leaves →
    ∀ (f : Nat) (rest : List (Side × Hash × Hash)), layersUp bl f c.idx pp = .ok rest →
    ∃ p, (c.toHT bl).proofOf k = some p ∧ p.nodeHash = h
      ∧ layersUp bl (f + c.depth) idx (parentOfL bl idx) = .ok (p.layers ++ rest) := by
  induction c with
  | leaf i k' v' h' =>
    intro pp hrep _ _ _ idx k v h hm f rest hup
    simp only [IT.leaves, List.mem_singleton, Prod.mk.injEq] at hm
    obtain ⟨e1, e2, e3, e4⟩ := hm
    subst e1; subst e2; subst e3; subst e4
    simp only [Rep] at hrep
    refine ⟨{ nodeHash := h, layers := [] }, by simp [IT.toHT, HT.proofOf], rfl, ?_⟩
    have : parentOfL bl idx = pp := by simp [parentOfL, hrep, Node.parent]
    rw [this]
    simpa [IT.depth, IT.idx] using hup
  | node i l r ihl ihr =>
    intro pp hrep hn hkn hclean idx k v h hm f rest hup
    simp only [Rep] at hrep
    obtain ⟨⟨d, hh, hb⟩, hl, hr⟩ := hrep
    simp only [IT.indices, List.nodup_cons] at hn
    obtain ⟨hnl, hnr, hdis⟩ := T.nodup_append' hn.2
    simp only [IT.leaves, List.map_append] at hkn
    obtain ⟨hkl, hkr, hkd⟩ := T.nodup_append' hkn
    have hbA : blockAt bl i = { dirty := d, node := .internal hh pp l.idx r.idx } := by simp [blockAt, hb]
    simp only [IT.toHT, hbA, HT.allClean, Bool.and_eq_true, Bool.not_eq_true'] at hclean
    obtain ⟨⟨hd, hcl⟩, hcr⟩ := hclean
    subst hd
    have hlr : l.idx ≠ r.idx := fun e => hdis _ l.idx_mem (e ▸ r.idx_mem)
    obtain ⟨bL, hbL, _, _⟩ := hl.root_block
    obtain ⟨bR, hbR, _, _⟩ := hr.root_block
    have nh : ∀ (x : Hash) (q : Option Nat) (a b : Nat), (Node.internal x q a b).hash = x := fun _ _ _ _ => rfl
    simp only [IT.leaves, List.mem_append] at hm
    simp only [IT.depth]
    rcases hm with hm | hm
    · -- the leaf is in the left subtree
      have hup1 : layersUp bl (f + 1) l.idx (some i) = .ok ((Side.right, bR.node.hash, hh) :: rest) := by
        simp only [layersUp, hb, Node.parent]
        simp only [IT.idx] at hup
        rw [hup]
        simp only [Bool.false_eq_true, if_false]
        have c1 : ¬ (l.idx ≠ r.idx ∧ l.idx ≠ l.idx) := fun hc => hc.2 rfl
        rw [if_neg c1, if_neg hlr, hbR]
        simp
      obtain ⟨p, hp, hnh, hres⟩ := ihl (some i) hl hnl hkl hcl idx k v h hm (f + 1) _ hup1
      refine ⟨{ p with layers := p.layers ++ [(.right, (r.toHT bl).hash, hh)] }, ?_, hnh, ?_⟩
      · simp only [IT.toHT, hbA, HT.proofOf, hp, nh]
      · have hfuel : f + (max l.depth r.depth + 1) = (f + 1 + l.depth) + (max l.depth r.depth - l.depth) := by omega
        rw [hfuel]
        have := layersUp_mono bl _ _ _ _ hres (max l.depth r.depth - l.depth)
        rw [this]
        simp only [hr.toHT_hash, blockAt, hbR, Option.getD_some, List.append_assoc, List.cons_append, List.nil_append]
    · -- the leaf is in the right subtree
      have hkl' : k ∉ (l.toHT bl).erase.keys := by
        rw [IT.toHT_erase, T.keys_eq, IT.erase_entries, List.map_map]
        intro hmem
        exact hkd k hmem (List.mem_map.mpr ⟨_, hm, rfl⟩)
      have hup1 : layersUp bl (f + 1) r.idx (some i) = .ok ((Side.left, bL.node.hash, hh) :: rest) := by
        simp only [layersUp, hb, Node.parent]
        simp only [IT.idx] at hup
        rw [hup]
        simp only [Bool.false_eq_true, if_false]
        have c1 : ¬ (r.idx ≠ r.idx ∧ r.idx ≠ l.idx) := fun hc => hc.1 rfl
        rw [if_neg c1]
        simp only [if_true, hbL, if_neg hlr]
      obtain ⟨p, hp, hnh, hres⟩ := ihr (some i) hr hnr hkr hcr idx k v h hm (f + 1) _ hup1
      refine ⟨{ p with layers := p.layers ++ [(.left, (l.toHT bl).hash, hh)] }, ?_, hnh, ?_⟩
      · simp only [IT.toHT, hbA, HT.proofOf, HT.proofOf_none_of_not_mem k _ hkl', hp, nh]
      · have hfuel : f + (max l.depth r.depth + 1) = (f + 1 + r.depth) + (max l.depth r.depth - r.depth) := by omega
        rw [hfuel]
        have := layersUp_mono bl _ _ _ _ hres (max l.depth r.depth - r.depth)
        rw [this]
        simp only [hl.toHT_hash, blockAt, hbL, Option.getD_some, List.append_assoc, List.cons_append, List.nil_append]

/-- **`get_proof_of_inclusion` returns the proof read off the abstraction** (all nodes clean) -/
theorem proof_commutes {s : Blob} {t : IT} (g : Good s t) (hclean : (t.toHT s.blocks).allClean = true)
    (k : KeyId) (hk : k ∈ t.erase.keys) :
    ∃ p, proofOfInclusion s k = .ok p ∧ (t.toHT s.blocks).proofOf k = some p := by
  rw [T.keys_eq, IT.erase_entries, List.map_map] at hk
  obtain ⟨e, he, hek⟩ := List.mem_map.mp hk
  obtain ⟨idx, k', v, h⟩ := e
  simp only [Function.comp] at hek
  subst hek
  have hget := g.mapGet_k2i he
  simp only at hget
  obtain ⟨q, hb⟩ := g.rep.leaf_block he
  simp only at hb
  have hlen : t.indices.length ≤ s.blocks.length := nodup_bound _ _ g.nodup g.rep.lt
  have hd := t.depth_lt_indices
  have hup : layersUp s.blocks (s.blocks.length + 1 - t.depth) t.idx none = .ok [] := by
    cases (s.blocks.length + 1 - t.depth) <;> rfl
  obtain ⟨p, hp, hnh, hres⟩ := layersUp_sub t none g.rep g.nodup g.keys hclean idx k' v h he _ _ hup
  have hf : s.blocks.length + 1 - t.depth + t.depth = s.blocks.length + 1 := by omega
  rw [hf, List.append_nil] at hres
  have hq : parentOfL s.blocks idx = q := by simp [parentOfL, hb, Node.parent]
  rw [hq] at hres
  obtain ⟨lin, hl, hpl⟩ := layersUp_ok _ _ _ _ _ hres
  refine ⟨p, ?_, hp⟩
  unfold proofOfInclusion
  simp only [hget, hb, hl, hpl]
  cases p with
  | mk nh ls =>
    simp only at hnh
    rw [hnh]

end ChiaModel.Blob
