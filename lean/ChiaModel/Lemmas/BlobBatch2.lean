import ChiaModel.Lemmas.BlobBatch
/-
C18, level L2: a validated `batch_insert` cannot fail on a locally well-formed blob.
-/
namespace ChiaModel.Blob
open M

/-! ### what the validation loop establishes -/

theorem batchValid_spec (s : Blob) (l : List KVH) (ks : List KeyId) (hs : List Hash)
    (h : batchValid s l ks hs = true) :
    (∀ e ∈ l, mapGet s.k2i e.1 = none ∧ mapGet s.h2i e.2.2 = none ∧ e.1 ∉ ks ∧ e.2.2 ∉ hs)
    ∧ (l.map (·.1)).Nodup ∧ (l.map (·.2.2)).Nodup := by
  induction l generalizing ks hs with
  | nil => exact ⟨fun _ he => (by cases he), List.nodup_nil, List.nodup_nil⟩
  | cons x l ih =>
    obtain ⟨k, v, hh⟩ := x
    simp only [batchValid] at h
    split at h
    · cases h
    · rename_i c1
      split at h
      · cases h
      · rename_i c2
        simp only [Bool.or_eq_true, not_or, Bool.not_eq_true, List.contains_eq_mem, decide_eq_false_iff_not] at c1 c2
        obtain ⟨i1, i2, i3⟩ := ih (k :: ks) (hh :: hs) h
        have hk0 : mapGet s.k2i k = none := by
          cases hm : mapGet s.k2i k with
          | none => rfl
          | some a => rw [hm] at c1; simp at c1
        have hh0 : mapGet s.h2i hh = none := by
          cases hm : mapGet s.h2i hh with
          | none => rfl
          | some a => rw [hm] at c2; simp at c2
        refine ⟨?_, ?_, ?_⟩
        · intro e he
          rcases List.mem_cons.mp he with e1 | e1
          · subst e1; exact ⟨hk0, hh0, c1.2, c2.2⟩
          · obtain ⟨a, b, c, d⟩ := i1 e e1
            exact ⟨a, b, fun hm => c (List.mem_cons_of_mem _ hm), fun hm => d (List.mem_cons_of_mem _ hm)⟩
        · simp only [List.map_cons, List.nodup_cons]
          refine ⟨?_, i2⟩
          intro hm
          obtain ⟨e, he, hek⟩ := List.mem_map.mp hm
          exact (i1 e he).2.2.1 (by rw [hek]; simp)
        · simp only [List.map_cons, List.nodup_cons]
          refine ⟨?_, i3⟩
          intro hm
          obtain ⟨e, he, hek⟩ := List.mem_map.mp hm
          exact (i1 e he).2.2.2 (by rw [hek]; simp)

/-! ### tracking the allocation phase of a batch -/

/-- the current state `s'` against the state `s` at the start of the attach phase: `W` = indexes
written so far (all newly allocated), `K` = the keys of the batch -/
structure BT (s s' : Blob) (W : List Nat) (K : List KeyId) : Prop where
  evo : Evo s s' W
  new : ∀ w ∈ W, w ∈ s.free ∨ s.blocks.length ≤ w
  keys : ∀ x, x ∉ K → mapGet s'.k2i x = mapGet s.k2i x
  wkeys : ∀ w ∈ W, ∀ d h p k v, s'.blocks[w]? = some { dirty := d, node := .leaf h p k v } → k ∈ K

theorem BT.refl {s : Blob} (hr : RangeP s) (K : List KeyId) : BT s s [] K :=
  ⟨Evo.refl hr, fun _ h => (by cases h), fun _ _ => rfl, fun _ h => (by cases h)⟩

/-- an old live index is never one of the written ones -/
theorem BT.old_not_written {s s' : Blob} {W : List Nat} {K : List KeyId} (t : BT s s' W K) {j : Nat}
    (hj : j < s.blocks.length) (hjf : j ∉ s.free) : j ∉ W := by
  intro hw
  rcases t.new j hw with h | h
  · exact hjf h
  · omega

theorem BT.old_block {s s' : Blob} {W : List Nat} {K : List KeyId} (t : BT s s' W K) {j : Nat}
    (hj : j < s.blocks.length) (hjf : j ∉ s.free) : s'.blocks[j]? = s.blocks[j]? :=
  t.evo.same j hj (t.old_not_written hj hjf)

theorem getNewIndex_bt {s s' : Blob} {W : List Nat} {K : List KeyId} (t : BT s s' W K) (hf : FreeLt s) :
    Ok getNewIndex s' (fun i s'' => BT s s'' W K ∧ i < s''.blocks.length
      ∧ (i ∈ s.free ∨ s.blocks.length ≤ i) ∧ s'.blocks.length ≤ s''.blocks.length) := by
  obtain ⟨i, s'', e, ev, h1, h2, h3⟩ := getNewIndex_spec t.evo hf
  refine ⟨i, s'', e, ⟨ev, t.new, ?_, ?_⟩, h1, h2, h3⟩
  · intro x hx
    have : s''.k2i = s'.k2i := by
      rw [getNewIndex_run] at e
      cases hfr : s'.free with
      | nil => rw [hfr] at e; injection e with _ e2; rw [← e2]
      | cons a rest => rw [hfr] at e; injection e with _ e2; rw [← e2]
    rw [this]; exact t.keys x hx
  · intro w hw d h p k v hb
    have hsame : ∀ j, j < s'.blocks.length → s''.blocks[j]? = s'.blocks[j]? := by
      intro j hj
      rw [getNewIndex_run] at e
      cases hfr : s'.free with
      | nil =>
        rw [hfr] at e; injection e with _ e2; rw [← e2]
        exact List.getElem?_append_left hj
      | cons a rest => rw [hfr] at e; injection e with _ e2; rw [← e2]
    by_cases hwl : w < s'.blocks.length
    · rw [hsame w hwl] at hb; exact t.wkeys w hw d h p k v hb
    · -- an appended zero block is not a leaf
      rw [getNewIndex_run] at e
      cases hfr : s'.free with
      | nil =>
        rw [hfr] at e; injection e with _ e2; rw [← e2] at hb
        simp only at hb
        rw [List.getElem?_append_right (Nat.le_of_not_lt hwl)] at hb
        have := List.mem_of_getElem? hb
        simp [Block.zero] at this
      | cons a rest =>
        rw [hfr] at e; injection e with _ e2; rw [← e2] at hb
        exact absurd (List.getElem?_eq_some_iff.mp hb).1 hwl

theorem writeBlock_bt {s s' : Blob} {W : List Nat} {K : List KeyId} (t : BT s s' W K) (i : Nat) (b : Block)
    (hi : i < s'.blocks.length) (hnew : i ∈ s.free ∨ s.blocks.length ≤ i)
    (hp : ∀ p, b.node.parent = some p → p < s'.blocks.length)
    (hk : ∀ h p k v, b.node = .leaf h p k v → k ∈ K) :
    Ok (writeBlock i b) s' (fun _ s'' => BT s s'' (i :: W) K ∧ s''.blocks.length = s'.blocks.length
      ∧ s''.blocks[i]? = some b) := by
  obtain ⟨u, s'', e, ev, hl, hself, hne⟩ := writeBlock_spec i b t.evo hi hp
  refine ⟨u, s'', e, ⟨ev, ?_, ?_, ?_⟩, hl, hself⟩
  · intro w hw
    rcases List.mem_cons.mp hw with e1 | e1
    · rw [e1]; exact hnew
    · exact t.new w e1
  · intro x hx
    have hs'' : s'' = s'.write i b := by
      rw [writeBlock_run, if_neg (by omega)] at e; injection e with _ e2; exact e2.symm
    rw [hs'']
    obtain ⟨d, n⟩ := b
    cases n with
    | internal h p l r => rw [write_k2i_internal]; exact t.keys x hx
    | leaf h p k v =>
      rw [write_k2i_leaf, mapGet_insert_ne _ _ _ _ (fun e' => hx (by rw [e']; exact hk h p k v rfl))]
      exact t.keys x hx
  · intro w hw d h p k v hb
    rcases List.mem_cons.mp hw with e1 | e1
    · rw [e1, hself] at hb; injection hb with hb
      exact hk h p k v (by rw [hb])
    · by_cases hwi : w = i
      · rw [hwi, hself] at hb; injection hb with hb
        exact hk h p k v (by rw [hb])
      · rw [hne w hwi] at hb; exact t.wkeys w e1 d h p k v hb

theorem updateParent_bt {s s' : Blob} {W : List Nat} {K : List KeyId} (t : BT s s' W K) (i : Nat) (q : Nat)
    (hi : i < s'.blocks.length) (hiw : i ∈ W) (hq : q < s'.blocks.length) :
    Ok (updateParent i (some q)) s' (fun _ s'' => BT s s'' W K ∧ s''.blocks.length = s'.blocks.length) := by
  obtain ⟨b, hb⟩ : ∃ b, s'.blocks[i]? = some b := ⟨s'.blocks[i], List.getElem?_eq_getElem hi⟩
  unfold updateParent
  refine (getBlock_spec hb).bind ?_
  rintro r s1 ⟨h1, h2⟩
  rw [h1, h2]
  have hk : ∀ h p k v, ({ b with node := b.node.setParent (some q) } : Block).node = .leaf h p k v → k ∈ K := by
    intro h p k v hn
    obtain ⟨d, n⟩ := b
    cases n with
    | internal _ _ _ _ => simp [Node.setParent] at hn
    | leaf h0 p0 k0 v0 =>
      simp only [Node.setParent, Node.leaf.injEq] at hn
      obtain ⟨_, _, e3, _⟩ := hn
      rw [← e3]
      exact t.wkeys i hiw d h0 p0 k0 v0 hb
  have hp : ∀ p, ({ b with node := b.node.setParent (some q) } : Block).node.parent = some p → p < s'.blocks.length := by
    intro p hp
    have : p = q := by cases hn : b.node <;> simp [hn, Node.setParent, Node.parent] at hp <;> exact hp.symm
    rw [this]; exact hq
  refine (writeBlock_bt t i _ hi (t.new i hiw) hp hk).bind ?_
  intro _ s2 ⟨t2, hl, _⟩
  refine Ok.pure ⟨⟨?_, t.new, t2.keys, ?_⟩, hl⟩
  · exact ⟨t2.evo.len, t2.evo.range, t2.evo.free, fun j hj hjw => t2.evo.same j hj (by
      intro hm; rcases List.mem_cons.mp hm with e | e
      · exact hjw (e ▸ hiw)
      · exact hjw e)⟩
  · intro w hw
    exact t2.wkeys w (List.mem_cons_of_mem _ hw)

/-- post-condition of the allocation loops: a tracked state that extends the one at call time
(written set `W0`, `n0` blocks) and result indexes that were all written -/
def IdxPost (s : Blob) (K : List KeyId) (W0 : List Nat) (n0 : Nat) (idxs : List Nat) (s' : Blob) : Prop :=
  ∃ W, BT s s' W K ∧ (∀ w ∈ W0, w ∈ W) ∧ n0 ≤ s'.blocks.length ∧ ∀ i ∈ idxs, i ∈ W ∧ i < s'.blocks.length

theorem batchLeaves_ok {s : Blob} (hf : FreeLt s) (K : List KeyId) (l : List KVH) (hl : ∀ e ∈ l, e.1 ∈ K)
    {s' : Blob} {W : List Nat} (t : BT s s' W K) :
    Ok (batchLeaves l) s' (IdxPost s K W s'.blocks.length) := by
  induction l generalizing s' W with
  | nil => exact Ok.pure ⟨W, t, fun _ h => h, Nat.le_refl _, fun _ h => (by cases h)⟩
  | cons x l ih =>
    obtain ⟨k, v, h⟩ := x
    simp only [batchLeaves]
    refine (getNewIndex_bt t hf).bind ?_
    intro i s1 ⟨t1, hi, hnew, hl01⟩
    refine (writeBlock_bt t1 i _ hi hnew (fun p hp => by simp [Node.parent] at hp) (fun h' p' k' v' hn => by
      simp only [Node.leaf.injEq] at hn
      rw [← hn.2.2.1]; exact hl (k, v, h) (by simp))).bind ?_
    intro _ s2 ⟨t2, hl2, _⟩
    refine (ih (fun e he => hl e (List.mem_cons_of_mem _ he)) t2).bind ?_
    intro is s3 ⟨W3, t3, hsub, hlen, h3⟩
    refine Ok.pure ⟨W3, t3, fun w hw => hsub w (List.mem_cons_of_mem _ hw), by omega, ?_⟩
    intro j hj
    rcases List.mem_cons.mp hj with e | e
    · rw [e]; exact ⟨hsub i (by simp), by omega⟩
    · exact h3 j e

theorem pairLevel_ok {s : Blob} (hf : FreeLt s) (K : List KeyId) (idxs : List Nat)
    {s' : Blob} {W : List Nat} (t : BT s s' W K) (hi : ∀ i ∈ idxs, i ∈ W ∧ i < s'.blocks.length) :
    Ok (pairLevel idxs) s' (IdxPost s K W s'.blocks.length) := by
  induction idxs using pairLevel.induct generalizing s' W with
  | case1 a b rest ih =>
    simp only [pairLevel]
    obtain ⟨haw, hal⟩ := hi a (by simp)
    obtain ⟨hbw, hbl⟩ := hi b (by simp)
    refine (getNewIndex_bt t hf).bind ?_
    intro ni s1 ⟨t1, hni, hnew, hl01⟩
    refine (updateParent_bt t1 a ni (by omega) haw hni).bind ?_
    intro _ s2 ⟨t2, hl2⟩
    refine (updateParent_bt t2 b ni (by omega) hbw (by omega)).bind ?_
    intro _ s3 ⟨t3, hl3⟩
    refine (writeBlock_bt t3 ni _ (by omega) hnew (fun p hp => by simp [Node.parent] at hp)
      (fun h' p' k' v' hn => by cases hn)).bind ?_
    intro _ s4 ⟨t4, hl4, _⟩
    refine (ih t4 (fun i hi' => ?_)).bind ?_
    · obtain ⟨c1, c2⟩ := hi i (List.mem_cons_of_mem _ (List.mem_cons_of_mem _ hi'))
      exact ⟨List.mem_cons_of_mem _ c1, by omega⟩
    · intro is s5 ⟨W5, t5, hsub, hlen, h5⟩
      refine Ok.pure ⟨W5, t5, fun w hw => hsub w (List.mem_cons_of_mem _ hw), by omega, ?_⟩
      intro j hj
      rcases List.mem_cons.mp hj with e | e
      · rw [e]; exact ⟨hsub ni (by simp), by omega⟩
      · exact h5 j e
  | case2 l hne =>
    rw [pairLevel]
    · exact Ok.pure ⟨W, t, fun _ h => h, Nat.le_refl _, hi⟩
    · intro a b rest e; exact hne a b rest e

theorem buildUp_ok {s : Blob} (hf : FreeLt s) (K : List KeyId) (f : Nat) (idxs : List Nat)
    {s' : Blob} {W : List Nat} (t : BT s s' W K) (hi : ∀ i ∈ idxs, i ∈ W ∧ i < s'.blocks.length) :
    Ok (buildUp f idxs) s' (IdxPost s K W s'.blocks.length) := by
  induction f generalizing idxs s' W with
  | zero => exact Ok.pure ⟨W, t, fun _ h => h, Nat.le_refl _, hi⟩
  | succ f ih =>
    simp only [buildUp]
    split
    · refine (pairLevel_ok hf K idxs t hi).bind ?_
      intro l' s1 ⟨W1, t1, hsub, hlen, h1⟩
      refine (ih l' t1 h1).mono ?_
      intro l'' s2 ⟨W2, t2, hsub2, hlen2, h2⟩
      exact ⟨W2, t2, fun w hw => hsub2 w (hsub w hw), by omega, h2⟩
    · exact Ok.pure ⟨W, t, fun _ h => h, Nat.le_refl _, hi⟩

/-! ### attaching the subtree -/

theorem markDirtyAux_len (f i : Nat) (s : Blob) : (markDirtyAux f i s).2.blocks.length = s.blocks.length := by
  induction f generalizing i s with
  | zero => rfl
  | succ f ih =>
    unfold markDirtyAux
    simp only [bind_run, getBlock_run]
    cases hb : s.blocks[i]? with
    | none => rfl
    | some b =>
      have hil : i < s.blocks.length := (List.getElem?_eq_some_iff.mp hb).1
      simp only
      by_cases hd : b.dirty = true
      · rw [if_pos hd]; rfl
      · rw [if_neg hd]
        simp only [bind_run, writeBlock_run, if_neg (Nat.not_lt.mpr (Nat.le_of_lt hil))]
        cases b.node.parent with
        | none => simp only [pure_run]; exact write_len s i _ hil
        | some p => simp only; rw [ih]; exact write_len s i _ hil

theorem markLineageDirty_len (i : Nat) (s : Blob) : (markLineageDirty i s).2.blocks.length = s.blocks.length := by
  unfold markLineageDirty
  simp only [bind_run, M.get]
  exact markDirtyAux_len _ i s

/-- `insert_subtree_at_key` at a live leaf of the original blob cannot fail -/
theorem insertSubtreeAtKey_ok {s : Blob} (hinv : LInv s) (hlen1 : s.k2i.length ≠ 1) (K : List KeyId)
    (hK : ∀ x ∈ K, mapGet s.k2i x = none) {s' : Blob} {W : List Nat} (t : BT s s' W K)
    (idx : Nat) {d : Bool} {oh : Hash} {op : Option Nat} {k0 : KeyId} {ov : ValueId}
    (hlive : idx ∉ s.free) (hb : s.blocks[idx]? = some { dirty := d, node := .leaf oh op k0 ov })
    (i : Nat) (hiw : i ∈ W) (hil : i < s'.blocks.length) :
    Ok (insertSubtreeAtKey k0 i .left) s' (fun _ _ => True) := by
  have hidx : idx < s.blocks.length := (List.getElem?_eq_some_iff.mp hb).1
  obtain ⟨c1, _⟩ := hinv.leaf_cached hlive hb
  have hk0 : k0 ∉ K := fun hm => by rw [hK k0 hm] at c1; cases c1
  obtain ⟨hnone, hsome⟩ := hinv.leaf_parent hlive hb
  cases op with
  | none => exact absurd (hnone rfl) hlen1
  | some opi =>
    obtain ⟨hopf, d', ph, pp, pl, pr, hpb, hpc⟩ := hsome opi rfl
    have hopi : opi < s.blocks.length := (List.getElem?_eq_some_iff.mp hpb).1
    unfold insertSubtreeAtKey
    refine (getNewIndex_bt t hinv.freeLt').bind ?_
    intro ni s1 ⟨t1, hni, hnew, hl01⟩
    -- get_leaf_by_key
    have hg : getLeafByKey k0 s1 = (.ok (idx, Node.leaf oh (some opi) k0 ov), s1) := by
      rw [getLeafByKey_run, t1.keys k0 hk0, c1]
      simp only [t1.old_block hidx hlive, hb]
    refine Ok.bind (Q := fun r s2 => r = (idx, Node.leaf oh (some opi) k0 ov) ∧ s2 = s1) ⟨_, _, hg, rfl, rfl⟩ ?_
    rintro r s2 ⟨h1, h2⟩
    rw [h1, h2]
    simp only
    -- get_node of the new subtree root
    have hil1 : i < s1.blocks.length := by omega
    obtain ⟨bi, hbi⟩ : ∃ b, s1.blocks[i]? = some b := ⟨s1.blocks[i], List.getElem?_eq_getElem hil1⟩
    refine Ok.bind (Q := fun r s2 => s2 = s1) ?_ ?_
    · unfold getNode
      refine (getBlock_spec hbi).bind ?_
      rintro r s2 ⟨_, h2'⟩
      rw [h2']; exact Ok.pure rfl
    · rintro newNode s2 h2'
      rw [h2']
      simp only [Node.hash, Node.parent]
      refine (writeBlock_bt t1 ni _ hni hnew (fun p hp => by
        simp only [Node.parent, Option.some.injEq] at hp; rw [← hp]; have := t1.evo.len; omega)
        (fun h' p' k' v' hn => by cases hn)).bind ?_
      intro _ s3 ⟨t3, hl3, _⟩
      refine (updateParent_bt t3 i ni (by omega) (List.mem_cons_of_mem _ hiw) (by omega)).bind ?_
      intro _ s4 ⟨t4, hl4⟩
      have hpb4 : s4.blocks[opi]? = some { dirty := d', node := .internal ph pp pl pr } := by
        rw [t4.old_block hopi hopf]; exact hpb
      refine (replaceChild_spec opi idx ni t4.evo hpb4 hpc).bind ?_
      intro _ s5 ⟨ev5, hl5, _⟩
      have hopi5 : opi < s5.blocks.length := Nat.lt_of_lt_of_le hopi ev5.len
      obtain ⟨_, s6, e6, _⟩ := markLineageDirty_ok opi s5 ev5.range hopi5
      refine Ok.bind (Q := fun _ s' => s' = s6) ⟨_, s6, e6, rfl⟩ ?_
      intro _ s7 h7
      rw [h7]
      have hl6 : s6.blocks.length = s5.blocks.length := by
        have := markLineageDirty_len opi s5; rw [e6] at this; exact this
      have hidx6 : idx < s6.blocks.length := by rw [hl6]; exact Nat.lt_of_lt_of_le hidx ev5.len
      obtain ⟨b6, hb6⟩ : ∃ b, s6.blocks[idx]? = some b := ⟨s6.blocks[idx], List.getElem?_eq_getElem hidx6⟩
      refine Ok.bind (Q := fun _ _ => True) ⟨_, _, updateParent_run idx (some ni) s6 b6 hb6, trivial⟩ ?_
      intro _ _ _
      exact Ok.pure trivial

theorem minHeightLeaf_run (s : Blob) :
    minHeightLeaf s =
      if s.blocks.isEmpty then (.error .err, s)
      else match bfAux s.blocks (2 * s.blocks.length + 2) [0] [] with
        | some (_, b) => (.ok b.node, s)
        | none => (.error .err, s) := by
  unfold minHeightLeaf
  simp only [bind_run, M.get]
  split
  · rfl
  · cases bfAux s.blocks (2 * s.blocks.length + 2) [0] [] with
    | none => rfl
    | some x => obtain ⟨a, b⟩ := x; rfl

/-- **the attach phase of a validated batch cannot fail** -/
theorem batchRest_ok {s : Blob} (hinv : LInv s) (hlen1 : s.k2i.length ≠ 1) (hne : s.blocks ≠ [])
    (l : List KVH) (hK : ∀ e ∈ l, mapGet s.k2i e.1 = none) :
    Ok (batchRest l) s (fun _ _ => True) := by
  have hK' : ∀ x ∈ l.map (·.1), mapGet s.k2i x = none := by
    intro x hx
    obtain ⟨e, he, hek⟩ := List.mem_map.mp hx
    rw [← hek]; exact hK e he
  unfold batchRest
  refine (batchLeaves_ok hinv.freeLt' (l.map (·.1)) l (fun e he => List.mem_map_of_mem (f := (·.1)) he)
    (BT.refl hinv.rangeP _)).bind ?_
  intro idxs s1 ⟨W1, t1, _, _, h1⟩
  refine (buildUp_ok hinv.freeLt' _ idxs.length idxs t1 h1).bind ?_
  intro top s2 ⟨W2, t2, _, _, h2⟩
  match top, h2 with
  | [], _ => exact Ok.pure trivial
  | a :: b :: rest, _ => exact Ok.pure trivial
  | [i], h2 =>
    simp only
    obtain ⟨hiw, hil⟩ := h2 i (by simp)
    have hlen2 : s.blocks.length ≤ s2.blocks.length := t2.evo.len
    have hne2 : s2.blocks.isEmpty = false := by
      cases hb : s2.blocks with
      | nil => rw [hb] at hil; simp at hil
      | cons _ _ => rfl
    obtain ⟨i0, b0, hbf, hi0f, hb0, hleaf0⟩ := bf_ok hinv s2.blocks
      (fun j hj hjf => t2.old_block hj hjf) hne (2 * s2.blocks.length + 2) (by omega)
    have hrun : minHeightLeaf s2 = (.ok b0.node, s2) := by
      rw [minHeightLeaf_run, hne2, hbf]; rfl
    refine Ok.bind (Q := fun r s' => r = b0.node ∧ s' = s2) ⟨_, _, hrun, rfl, rfl⟩ ?_
    rintro r s3 ⟨e1, e2⟩
    rw [e1, e2]
    obtain ⟨d0, n0⟩ := b0
    cases n0 with
    | internal _ _ _ _ => simp [Node.isLeaf] at hleaf0
    | leaf oh op k0 ov =>
      simp only
      exact insertSubtreeAtKey_ok hinv hlen1 _ hK' t2 i0 hi0f hb0 i hiw hil

/-! ### the whole batch -/

theorem length_ne_one_of_two {κ : Type} [DecidableEq κ] (m : List (κ × Nat)) (a b : κ) (hab : a ≠ b)
    (ha : mapGet m a ≠ none) (hb : mapGet m b ≠ none) : m.length ≠ 1 := by
  intro hl
  match m, hl with
  | [(k', i')], _ =>
    simp only [mapGet] at ha hb
    by_cases h1 : k' = a
    · by_cases h2 : k' = b
      · exact hab (h1.symm.trans h2)
      · rw [if_neg h2] at hb; exact hb rfl
    · rw [if_neg h1] at ha; exact ha rfl

theorem LInv.blocks_ne_nil {s : Blob} (hinv : LInv s) (k : KeyId) (hk : mapGet s.k2i k ≠ none) : s.blocks ≠ [] := by
  intro hb
  have := hinv.empty_of_no_blocks hb
  rw [this] at hk
  exact hk rfl

/-- **a validated batch cannot fail on a locally well-formed blob** -/
theorem batchCommit_ok {s : Blob} (hinv : LInv s) (l : List KVH) (hv : batchValid s l [] [] = true) :
    Ok (batchCommit l) s (fun _ _ => True) := by
  obtain ⟨hall, hkn, hhn⟩ := batchValid_spec s l [] [] hv
  unfold batchCommit
  show Ok (fun s0 => (if s0.k2i.length ≤ 1 then
      match l.reverse with
      | [] => pure ()
      | (k1, v1, h1) :: r1 => do
        let _ ← insert k1 v1 h1 .auto
        match r1 with
        | [] => pure ()
        | (k2, v2, h2) :: r2 => do
          let _ ← insert k2 v2 h2 .auto
          batchRest r2.reverse
    else batchRest l : M Unit) s0) s (fun _ _ => True)
  unfold Ok
  simp only
  by_cases hle : s.k2i.length ≤ 1
  · rw [if_pos hle]
    cases hrev : l.reverse with
    | nil => exact ⟨(), s, rfl, trivial⟩
    | cons x1 r1 =>
      have hl : l = r1.reverse ++ [x1] := by
        have := congrArg List.reverse hrev; simpa using this
      obtain ⟨k1, v1, h1⟩ := x1
      obtain ⟨hk1, hh1, _, _⟩ := hall (k1, v1, h1) (by rw [hl]; simp)
      obtain ⟨a1, s1, e1, hinv1, c1⟩ := insert_auto_ok hinv k1 v1 h1 hk1 hh1
      simp only
      cases r1 with
      | nil =>
        refine ⟨(), s1, ?_, trivial⟩
        show (insert k1 v1 h1 .auto >>= fun _ => pure ()) s = _
        rw [bind_run, e1]; rfl
      | cons x2 r2 =>
        obtain ⟨k2, v2, h2⟩ := x2
        have hl2 : l = r2.reverse ++ [(k2, v2, h2), (k1, v1, h1)] := by rw [hl]; simp
        obtain ⟨hk2, hh2, _, _⟩ := hall (k2, v2, h2) (by rw [hl2]; simp)
        have hk12 : k2 ≠ k1 := by
          rw [hl2] at hkn
          simp only [List.map_append, List.map_cons, List.map_nil] at hkn
          have := (List.nodup_append.mp hkn).2.1
          simp only [List.nodup_cons, List.mem_singleton] at this
          exact this.1
        have hh12 : h2 ≠ h1 := by
          rw [hl2] at hhn
          simp only [List.map_append, List.map_cons, List.map_nil] at hhn
          have := (List.nodup_append.mp hhn).2.1
          simp only [List.nodup_cons, List.mem_singleton] at this
          exact this.1
        obtain ⟨a2, s2, e2, hinv2, c2⟩ := insert_auto_ok hinv1 k2 v2 h2
          ((c1.1 k2).mpr ⟨hk12, hk2⟩) ((c1.2 h2).mpr ⟨hh12, hh2⟩)
        -- the attach phase on s2
        have hk1_in : mapGet s2.k2i k1 ≠ none := by
          intro hn
          have := ((c2.1 k1).mp hn).2
          exact ((c1.1 k1).mp this).1 rfl
        have hk2_in : mapGet s2.k2i k2 ≠ none := fun hn => ((c2.1 k2).mp hn).1 rfl
        have hlen2 : s2.k2i.length ≠ 1 := length_ne_one_of_two _ k1 k2 (fun e => hk12 e.symm) hk1_in hk2_in
        have hne2 : s2.blocks ≠ [] := hinv2.blocks_ne_nil k1 hk1_in
        have hK2 : ∀ e ∈ r2.reverse, mapGet s2.k2i e.1 = none := by
          intro e he
          have hel : e ∈ l := by rw [hl2]; simp [List.mem_reverse.mp he]
          obtain ⟨hek, _, _, _⟩ := hall e hel
          -- e.1 differs from k1 and k2 because the keys of the batch are pairwise distinct
          have hdis : e.1 ≠ k2 ∧ e.1 ≠ k1 := by
            rw [hl2] at hkn
            simp only [List.map_append, List.map_cons, List.map_nil] at hkn
            have h3 := (List.nodup_append.mp hkn).2.2
            have hm : e.1 ∈ (r2.reverse).map (·.1) := List.mem_map_of_mem (f := (·.1)) he
            exact ⟨fun e' => h3 e.1 hm k2 (by simp) e', fun e' => h3 e.1 hm k1 (by simp) e'⟩
          exact (c2.1 e.1).mpr ⟨hdis.1, (c1.1 e.1).mpr ⟨hdis.2, hek⟩⟩
        obtain ⟨_, s3, e3, _⟩ := batchRest_ok hinv2 hlen2 hne2 r2.reverse hK2
        refine ⟨(), s3, ?_, trivial⟩
        show (insert k1 v1 h1 .auto >>= fun _ => insert k2 v2 h2 .auto >>= fun _ => batchRest r2.reverse) s = _
        rw [bind_run, e1]
        simp only
        rw [bind_run, e2]
        exact e3
  · rw [if_neg hle]
    have hlen1 : s.k2i.length ≠ 1 := by omega
    have hne : s.blocks ≠ [] := by
      intro hb
      have := hinv.empty_of_no_blocks hb
      rw [this] at hle; simp [Blob.empty] at hle
    exact batchRest_ok hinv hlen1 hne l (fun e he => (hall e he).1)

/-- `batch_insert`: either nothing is touched or it succeeds -/
theorem batchInsert_keepOrOk {s : Blob} (hinv : LInv s) (l : List KVH) : KeepOrOk (batchInsert l) s := by
  unfold batchInsert
  show KeepOrOk (fun s0 => (if batchValid s0 l [] [] then batchCommit l else M.throw .err : M Unit) s0) s
  unfold KeepOrOk Ok
  simp only
  cases hv : batchValid s l [] [] with
  | false => left; rfl
  | true =>
    right
    simp only [if_true]
    exact batchCommit_ok hinv l hv

end ChiaModel.Blob
