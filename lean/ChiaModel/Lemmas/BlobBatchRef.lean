import ChiaModel.Lemmas.BlobForest
/-
C18: `batch_insert` refines the abstract batch: the subtree built in the allocation phase is grafted
to the left of the minimum-height leaf.
-/
namespace ChiaModel.Blob
open List M

/-! ### generic facts -/

def rcL (old l new : Nat) : Nat := if old = l then new else l
def rcR (old l r new : Nat) : Nat := if old = l then r else new

theorem replaceChild_run' (s : Blob) (pi old new : Nat) {d : Bool} {h : Hash} {p : Option Nat} {l r : Nat}
    (hb : s.blocks[pi]? = some { dirty := d, node := .internal h p l r }) (hk : old = l ∨ old = r) :
    replaceChild pi old new s
      = (.ok (), s.write pi { dirty := d, node := .internal h p (rcL old l new) (rcR old l r new) }) := by
  have hil : pi < s.blocks.length := (List.getElem?_eq_some_iff.mp hb).1
  unfold replaceChild rcL rcR
  simp only [bind_run, getBlock_run, hb]
  by_cases h1 : old = l
  · rw [if_pos h1, if_pos h1, if_pos h1, writeBlock_run, if_neg (Nat.not_lt.mpr (Nat.le_of_lt hil))]
  · rw [if_neg h1, if_neg h1, if_neg h1, if_pos (hk.resolve_left h1), writeBlock_run,
      if_neg (Nat.not_lt.mpr (Nat.le_of_lt hil))]

theorem Rep.root_block {bl : List Block} {p : Option Nat} {c : IT} (hc : Rep bl p c) :
    ∃ x, bl[c.idx]? = some x ∧ x.node.parent = p
      ∧ ∀ h q k v, x.node = .leaf h q k v → (c.idx, k, v, h) ∈ c.leaves := by
  cases c with
  | leaf i k' v' h' =>
    simp only [Rep] at hc
    refine ⟨_, hc, rfl, ?_⟩
    intro h q k v hn
    simp only at hn; injection hn with e1 _ e3 e4
    simp [IT.leaves, IT.idx, e1, e3, e4]
  | node i l r =>
    simp only [Rep] at hc
    obtain ⟨⟨d, hh, hb⟩, _, _⟩ := hc
    refine ⟨_, hb, rfl, ?_⟩
    intro h q k v hn; simp at hn

theorem IT.tail_ne_idx (c : IT) (hcn : c.indices.Nodup) : ∀ j ∈ c.indices.tail, j ≠ c.idx := by
  intro j hj e
  cases c with
  | leaf _ _ _ _ => simp [IT.indices] at hj
  | node i l r =>
    simp only [IT.indices, List.tail_cons] at hj
    simp only [IT.indices, List.nodup_cons] at hcn
    simp only [IT.idx] at e
    exact hcn.1 (e ▸ hj)

/-! ### `insert_subtree_at_key` grafts the new subtree -/

theorem insertSubtree_good {s s' : Blob} {t N : IT} (g : Good s t) (ft : FT s s' [N])
    {idx : Nat} {ok : KeyId} {ov : ValueId} {oh : Hash} {opi : Nat}
    (hleaf : (idx, ok, ov, oh) ∈ t.leaves)
    (hb : s.blocks[idx]? = some { dirty := false, node := .leaf oh (some opi) ok ov }) :
    ∃ S ni, insertSubtreeAtKey ok N.idx .left s' = (.ok (), S) ∧ Good S (IT.graft idx ni .left N t)
      ∧ (LH s.blocks none t → LH S.blocks none (IT.graft idx ni .left N t)) := by
  have hinv := g.linv
  have hlt : ∀ i ∈ s.free, i < s.blocks.length := hinv.freeLt
  have hidxm : idx ∈ t.indices := t.leaf_idx_mem _ hleaf
  have hlive := (g.live_iff idx).mpr hidxm
  obtain ⟨hof, d, hh, pp, pl, pr, hpb, hkid⟩ := hinv.parent_of hlive.2 hb rfl
  have hopil : opi < s.blocks.length := (List.getElem?_eq_some_iff.mp hpb).1
  have hopim : opi ∈ t.indices := (g.live_iff opi).mp ⟨hopil, hof⟩
  have hNF : fIdx [N] = N.indices := by simp [fIdx]
  have hNL : fLeaves [N] = N.leaves := by simp [fLeaves]
  have hrN := ft.rep N (by simp)
  have hNn : N.indices.Nodup := by have := ft.nodup; rwa [hNF] at this
  have hNnew : ∀ j ∈ N.indices, j ∉ t.indices := by
    intro j hj hm
    have := (g.live_iff j).mpr hm
    rcases ft.new j (by rw [hNF]; exact hj) with h | h
    · exact this.2 h
    · omega
  obtain ⟨ni, s1, e1, A⟩ := getNewIndex_alloc ft hlt
  have hniN : ni ∉ N.indices := by have := A.notIn; rwa [hNF] at this
  have hnit : ni ∉ t.indices := by
    intro hm
    have := (g.live_iff ni).mpr hm
    rcases A.isNew with h | h
    · exact this.2 h
    · omega
  have old1 : ∀ j ∈ t.indices, s1.blocks[j]? = s.blocks[j]? := by
    intro j hj
    have := (g.live_iff j).mpr hj
    rw [A.same j (Nat.lt_of_lt_of_le this.1 ft.lenLe), ft.same j this.1 this.2]
  have new1 : ∀ j ∈ N.indices, s1.blocks[j]? = s'.blocks[j]? := fun j hj => A.same j (hrN.lt j hj)
  obtain ⟨bN, hbN, hbNp, hbNl⟩ := hrN.root_block
  -- distinctness
  have n1 : opi ≠ N.idx := fun e => hNnew _ N.idx_mem (e ▸ hopim)
  have n2 : opi ≠ ni := fun e => hnit (e ▸ hopim)
  have n3 : N.idx ≠ ni := fun e => hniN (e ▸ N.idx_mem)
  have n4 : idx ≠ opi := by
    intro e; rw [e, hpb] at hb; injection hb with hb; injection hb with _ hn; cases hn
  have n5 : idx ≠ N.idx := fun e => hNnew _ N.idx_mem (e ▸ hidxm)
  have n6 : idx ≠ ni := fun e => hnit (e ▸ hidxm)
  -- lengths
  have l1 : ni < s1.blocks.length := A.lt
  have lN : N.idx < s1.blocks.length := Nat.lt_of_lt_of_le (hrN.lt _ N.idx_mem) A.lenLe
  have lo : opi < s1.blocks.length := Nat.lt_of_lt_of_le hopil (Nat.le_trans ft.lenLe A.lenLe)
  have li : idx < s1.blocks.length := Nat.lt_of_lt_of_le hlive.1 (Nat.le_trans ft.lenLe A.lenLe)
  -- the states
  generalize hX : ({ dirty := false, node := .internal (internalHash bN.node.hash oh) (some opi) N.idx idx } : Block) = X
  generalize hs2 : s1.write ni X = s2
  have len2 : s2.blocks.length = s1.blocks.length := by rw [← hs2, write_len _ _ _ l1]
  generalize hY : ({ bN with node := bN.node.setParent (some ni) } : Block) = Y
  generalize hs3 : s2.write N.idx Y = s3
  have len3 : s3.blocks.length = s1.blocks.length := by rw [← hs3, write_len _ _ _ (by rw [len2]; exact lN), len2]
  generalize hZ : ({ dirty := d, node := .internal hh pp (rcL idx pl ni) (rcR idx pl pr ni) } : Block) = Z
  generalize hs4 : s3.write opi Z = s4
  have len4 : s4.blocks.length = s1.blocks.length := by rw [← hs4, write_len _ _ _ (by rw [len3]; exact lo), len3]
  have eB : ∀ j, s4.blocks[j]? = if j = opi then some Z else if j = N.idx then some Y
      else if j = ni then some X else s1.blocks[j]? := by
    intro j
    rw [← hs4, write_get _ _ _ (by rw [len3]; exact lo), ← hs3, write_get _ _ _ (by rw [len2]; exact lN), ← hs2,
      write_get _ _ _ l1]
  generalize hBk : ({ dirty := false, node := .leaf oh (some ni) ok ov } : Block) = B
  generalize hT : s4.write idx B = T
  have lenT : T.blocks.length = s1.blocks.length := by rw [← hT, write_len _ _ _ (by rw [len4]; exact li), len4]
  have eT : ∀ j, T.blocks[j]? = if j = idx then some B else s4.blocks[j]? := by
    intro j; rw [← hT, write_get _ _ _ (by rw [len4]; exact li)]
  -- free lists
  have f1 : ni ∉ s1.free := fun hm => ((A.free ni).mp hm).2 rfl
  have fN : N.idx ∉ s1.free := fun hm => ((ft.free _).mp ((A.free _).mp hm).1).2 (by rw [hNF]; exact N.idx_mem)
  have fo : opi ∉ s1.free := fun hm => hof ((ft.free _).mp ((A.free _).mp hm).1).1
  have fi : idx ∉ s1.free := fun hm => hlive.2 ((ft.free _).mp ((A.free _).mp hm).1).1
  have free4 : s4.free = s1.free := by
    rw [← hs4, write_free, ← hs3, write_free, ← hs2, write_free, List.erase_of_not_mem f1, List.erase_of_not_mem fN,
      List.erase_of_not_mem fo]
  have freeT : T.free = s1.free := by rw [← hT, write_free, free4, List.erase_of_not_mem fi]
  -- the run
  have hidx1 : s1.blocks[idx]? = some { dirty := false, node := .leaf oh (some opi) ok ov } := by
    rw [old1 idx hidxm]; exact hb
  have hkeyNodup := (ft.k2i.map (·.1)).nodup_iff.mp ft.k2iNodup
  have hk1 : mapGet s1.k2i ok = some idx := by
    rw [A.k2i, mapGet_perm ft.k2i ft.k2iNodup]
    refine mapGet_of_mem _ _ _ hkeyNodup (List.mem_append.mpr (Or.inr ?_))
    exact mapGet_mem _ _ _ (g.mapGet_k2i hleaf)
  have hN1 : s1.blocks[N.idx]? = some bN := by rw [new1 _ N.idx_mem]; exact hbN
  have hN2 : s2.blocks[N.idx]? = some bN := by rw [← hs2, write_get _ _ _ l1, if_neg n3]; exact hN1
  have ho3 : s3.blocks[opi]? = some { dirty := d, node := .internal hh pp pl pr } := by
    rw [← hs3, write_get _ _ _ (by rw [len2]; exact lN), if_neg n1, ← hs2, write_get _ _ _ l1, if_neg n2,
      old1 opi hopim]; exact hpb
  have hi4 : s4.blocks[idx]? = some { dirty := false, node := .leaf oh (some opi) ok ov } := by
    rw [eB idx, if_neg n4, if_neg n5, if_neg n6]; exact hidx1
  -- the graft post-condition for `T`
  have hMn := hkeyNodup
  have hMhn := (ft.h2i.map (·.1)).nodup_iff.mp ft.h2iNodup
  rw [hNL] at hMn hMhn
  have hk1p : s1.k2i ~ N.leaves.map (fun e => (e.2.1, e.1)) ++ s.k2i := by rw [A.k2i, ← hNL]; exact ft.k2i
  have hh1p : s1.h2i ~ N.leaves.map (fun e => (e.2.2.2, e.1)) ++ s.h2i := by rw [A.h2i, ← hNL]; exact ft.h2i
  have c2 : s2.k2i = s1.k2i ∧ s2.h2i = s1.h2i := by rw [← hs2, ← hX]; exact ⟨rfl, rfl⟩
  have c3 := write_cache_perm s2 N.idx bN (some ni) _ _ (by rw [c2.1]; exact hk1p) (by rw [c2.2]; exact hh1p) hMn hMhn
    (fun h q k v hn => ⟨List.mem_append.mpr (Or.inl (List.mem_map.mpr ⟨_, hbNl h q k v hn, rfl⟩)),
      List.mem_append.mpr (Or.inl (List.mem_map.mpr ⟨_, hbNl h q k v hn, rfl⟩))⟩)
  rw [hY, hs3] at c3
  have c4 : s4.k2i = s3.k2i ∧ s4.h2i = s3.h2i := by rw [← hs4, ← hZ]; exact ⟨rfl, rfl⟩
  have cT := write_cache_perm s4 idx { dirty := false, node := .leaf oh (some opi) ok ov } (some ni) _ _
    (by rw [c4.1]; exact c3.1) (by rw [c4.2]; exact c3.2) hMn hMhn
    (by
      intro h q k v hn
      injection hn with a1 _ a3 a4
      subst a1; subst a3
      exact ⟨List.mem_append.mpr (Or.inr (mapGet_mem _ _ _ (g.mapGet_k2i hleaf))),
        List.mem_append.mpr (Or.inr (mapGet_mem _ _ _ (g.mapGet_h2i hleaf)))⟩)
  have hBeq : ({ ({ dirty := false, node := .leaf oh (some opi) ok ov } : Block) with
      node := (Node.leaf oh (some opi) ok ov).setParent (some ni) } : Block) = B := by rw [← hBk]; rfl
  rw [hBeq, hT] at cT
  have rS := hinv.rangeP
  have GP : GraftPost s T t N idx ni opi .left oh ok ov pp pl pr (rcL idx pl ni) (rcR idx pl pr ni) := by
    refine {
      good := g, leafMem := hleaf, leafB := hb, par := ⟨d, hh, hpb⟩, pkids := ?_, niNew := hnit, nNew := hNnew,
      niN := hniN, nNodup := hNn, repN := ?_, bNi := ?_, bIdx := ?_, bOpi := ?_, bOther := ?_, lenLe := ?_,
      newIdx := ?_, free := ?_, freeNodup := by rw [freeT]; exact A.freeNodup, k2i := cT.1, h2i := cT.2,
      keys := ?_, hashes := ?_, range := ?_ }
    · unfold rcL rcR
      by_cases h1 : idx = pl
      · rw [if_pos h1, if_pos h1]; exact Or.inl ⟨h1, rfl, rfl⟩
      · rw [if_neg h1, if_neg h1]; exact Or.inr ⟨hkid.resolve_left h1, h1, rfl, rfl⟩
    · refine hrN.reparent (fun y hy => ?_) ?_
      · rw [hbN] at hy; injection hy with hy; subst hy
        rw [eT, if_neg (fun e => n5 e.symm), eB, if_neg (fun e => n1 e.symm), if_pos rfl, ← hY]
      · intro j hj
        have hjm := List.mem_of_mem_tail hj
        have hjt := hNnew j hjm
        have a1 : j ≠ idx := fun e => hjt (e ▸ hidxm)
        have a2 : j ≠ opi := fun e => hjt (e ▸ hopim)
        have a3 : j ≠ ni := fun e => hniN (e ▸ hjm)
        rw [eT, if_neg a1, eB, if_neg a2, if_neg (N.tail_ne_idx hNn j hj), if_neg a3, new1 j hjm]
    · refine ⟨false, internalHash bN.node.hash oh, ?_⟩
      rw [eT, if_neg (fun e => n6 e.symm), eB, if_neg (fun e => n2 e.symm), if_neg (fun e => n3 e.symm), if_pos rfl, ← hX]
      rfl
    · rw [eT, if_pos rfl, ← hBk]
    · refine ⟨d, hh, ?_⟩
      rw [eT, if_neg (fun e => n4 e.symm), eB, if_pos rfl, ← hZ]
    · intro j hj h1 h2
      have a1 : j ≠ N.idx := fun e => hNnew _ N.idx_mem (e ▸ hj)
      have a2 : j ≠ ni := fun e => hnit (e ▸ hj)
      rw [eT, if_neg h1, eB, if_neg h2, if_neg a1, if_neg a2, old1 j hj]
    · rw [lenT]; exact Nat.le_trans ft.lenLe A.lenLe
    · intro j h1 h2
      rw [lenT] at h2
      by_cases hj : j < s'.blocks.length
      · exact Or.inr (by have := ft.newIdx j h1 hj; rwa [hNF] at this)
      · exact Or.inl (A.newIdx j (Nat.le_of_not_lt hj) h2)
    · intro j
      rw [freeT, A.free j, ft.free j, hNF]
      constructor
      · rintro ⟨⟨x, y⟩, z⟩; exact ⟨x, z, y⟩
      · rintro ⟨x, z, y⟩; exact ⟨⟨x, y⟩, z⟩
    · have := hMn
      simp only [List.map_append, List.map_map, Function.comp_def] at this
      refine (List.Perm.nodup_iff (List.Perm.append_left _ ?_)).mp this
      simpa [List.map_map, Function.comp_def] using g.k2i.map (·.1)
    · have := hMhn
      simp only [List.map_append, List.map_map, Function.comp_def] at this
      refine (List.Perm.nodup_iff (List.Perm.append_left _ ?_)).mp this
      simpa [List.map_map, Function.comp_def] using g.h2i.map (·.1)
    · intro j x hx q hq
      rw [lenT]
      rw [eT] at hx
      by_cases h1 : j = idx
      · rw [if_pos h1] at hx; injection hx with hx; subst hx; rw [← hBk] at hq
        simp only [Node.parent] at hq; injection hq with hq; rw [← hq]; exact l1
      · rw [if_neg h1, eB] at hx
        by_cases h2 : j = opi
        · rw [if_pos h2] at hx; injection hx with hx; subst hx; rw [← hZ] at hq
          have := rS opi _ hpb q hq
          exact Nat.lt_of_lt_of_le this (Nat.le_trans ft.lenLe A.lenLe)
        · rw [if_neg h2] at hx
          by_cases h3 : j = N.idx
          · rw [if_pos h3] at hx; injection hx with hx; subst hx; rw [← hY] at hq
            have : q = ni := by
              cases hn : bN.node <;> simp [hn, Node.setParent, Node.parent] at hq <;> exact hq.symm
            rw [this]; exact l1
          · rw [if_neg h3] at hx
            by_cases h4 : j = ni
            · rw [if_pos h4] at hx; injection hx with hx; subst hx; rw [← hX] at hq
              simp only [Node.parent] at hq; injection hq with hq; rw [← hq]; exact lo
            · rw [if_neg h4] at hx; exact A.range j x hx q hq
  have gT := GP.good_after
  have hTi : T.blocks[idx]? = some B := by rw [eT, if_pos rfl]
  have pi4 : PI s4 := by
    intro i hi d0 h0 q l r hbi
    have a1 : i ≠ idx := by
      intro e; rw [e, hi4] at hbi; injection hbi with hbi; injection hbi with _ hn; cases hn
    have hTb : T.blocks[i]? = some { dirty := d0, node := .internal h0 (some q) l r } := by
      rw [eT, if_neg a1]; exact hbi
    obtain ⟨hq, d', h', p', l', r', hqb⟩ := gT.linv.pi i (by rw [freeT, ← free4]; exact hi) d0 h0 q l r hTb
    have a2 : q ≠ idx := by
      intro e; rw [e, hTi, ← hBk] at hqb; injection hqb with hqb; injection hqb with _ hn; cases hn
    refine ⟨by rw [free4, ← freeT]; exact hq, d', h', p', l', r', ?_⟩
    rw [eT, if_neg a2] at hqb; exact hqb
  have ho4 : ∃ d0 h0 p0 l0 r0, s4.blocks[opi]? = some { dirty := d0, node := .internal h0 p0 l0 r0 } :=
    ⟨_, _, _, _, _, by rw [eB, if_pos rfl, ← hZ]⟩
  have hss := markLineageDirty_sameShape' opi s4 pi4 (by rw [free4]; exact fo) ho4
  have r4 : RangeP s4 := by
    intro j x hx q hq
    by_cases h1 : j = idx
    · rw [h1, hi4] at hx; injection hx with hx; subst hx
      simp only [Node.parent] at hq; injection hq with hq; rw [← hq, len4]; exact lo
    · have := GP.range j x (by rw [eT, if_neg h1]; exact hx) q hq
      rw [lenT] at this; rw [len4]; exact this
  obtain ⟨_, s5, e5, _⟩ := markLineageDirty_ok opi s4 r4 (by rw [len4]; exact lo)
  rw [e5] at hss
  have hi5 : s5.blocks[idx]? = some { dirty := false, node := .leaf oh (some opi) ok ov } := by
    rcases hss.blk idx with e | ⟨d1, d2, h1, h2, p1, l1', r1, e1', _⟩
    · rw [e]; exact hi4
    · rw [hi4] at e1'; injection e1' with e1'; injection e1' with _ hn; cases hn
  have hfin := (hss.write idx B (by rw [len4]; exact li))
  rw [hT] at hfin
  refine ⟨s5.write idx B, ni, ?_, gT.sameShape hfin, ?_⟩
  rotate_left
  · intro hlh
    have hsp : ∀ (y : Block), (y.node.setParent (some ni)).hash = y.node.hash := by
      intro y; cases y.node <;> rfl
    have hTN : T.blocks[N.idx]? = some Y := by
      rw [eT, if_neg (fun e => n5 e.symm), eB, if_neg (fun e => n1 e.symm), if_pos rfl]
    have hTni : T.blocks[ni]? = some X := by
      rw [eT, if_neg (fun e => n6 e.symm), eB, if_neg (fun e => n2 e.symm), if_neg (fun e => n3 e.symm), if_pos rfl]
    have hTo : T.blocks[opi]? = some Z := by
      rw [eT, if_neg (fun e => n4 e.symm), eB, if_pos rfl]
    -- the new subtree keeps its flags and hashes
    have hNsame : ∀ j ∈ N.indices, dirtyB T.blocks j = dirtyB s'.blocks j ∧ hashB T.blocks j = hashB s'.blocks j := by
      intro j hj
      by_cases e : j = N.idx
      · rw [e]
        simp [dirtyB, hashB, blockAt, hTN, hbN, ← hY, hsp]
      · have hjt := hNnew j hj
        have a1 : j ≠ idx := fun e => hjt (e ▸ hidxm)
        have a2 : j ≠ opi := fun e => hjt (e ▸ hopim)
        have a3 : j ≠ ni := fun e => hniN (e ▸ hj)
        have : T.blocks[j]? = s'.blocks[j]? := by
          rw [eT, if_neg a1, eB, if_neg a2, if_neg e, if_neg a3, new1 j hj]
        simp [dirtyB, hashB, blockAt, this]
    have lN := ft.lh N (by simp)
    have hole : LH T.blocks (some opi) (IT.graft idx ni .left N t) := by
      refine graft_LH (bl := s.blocks) (bl' := T.blocks) (N := N) ⟨false, oh, some opi, ok, ov, hb⟩
        (by simp [parentOfL, hb, Node.parent]) (fun e => n2 e.symm) (by simp [dirtyB, blockAt, hTi, ← hBk])
        (LH.congr hNsame lN.1) (by rw [(hNsame _ N.idx_mem).1]; exact lN.2) ?_ t none g.rep hlh ?_
      · have h1 : hashB T.blocks ni = internalHash bN.node.hash oh := by
          have : hashB T.blocks ni = X.node.hash := by simp [hashB, blockAt, hTni]
          rw [this, ← hX]; rfl
        have h2 : hashB T.blocks N.idx = bN.node.hash := by
          have : hashB T.blocks N.idx = Y.node.hash := by simp [hashB, blockAt, hTN]
          rw [this, ← hY]; exact hsp bN
        have h3 : hashB T.blocks idx = oh := by
          have : hashB T.blocks idx = B.node.hash := by simp [hashB, blockAt, hTi]
          rw [this, ← hBk]; rfl
        show hashB T.blocks ni = internalHash (hashB T.blocks N.idx) (hashB T.blocks idx)
        rw [h1, h2, h3]
      · intro j hj hji
        by_cases hjo : j = opi
        · rw [hjo]
          simp [dirtyB, hashB, blockAt, hTo, hpb, ← hZ, Node.hash]
        · have := GP.bOther j hj hji hjo
          simp [dirtyB, hashB, blockAt, this]
    -- the walk runs on the state before the last write; that write only touches the leaf block
    have kpT : KP T.blocks (IT.graft idx ni .left N t) := gT.rep.kp
    have kp4 : KP s4.blocks (IT.graft idx ni .left N t) := by
      refine kpT.congr ?_ ?_
      · intro x d0 h0 p0 l0 r0 hx
        have hxi : x ≠ idx := by
          intro e; rw [e, hTi, ← hBk] at hx; injection hx with hx; injection hx with _ hn; cases hn
        exact ⟨d0, h0, by rw [eT, if_neg hxi] at hx; exact hx⟩
      · intro x d0 h0 p0 k0 v0 hx
        by_cases hxi : x = idx
        · rw [hxi]; exact ⟨_, _, _, _, _, hi4⟩
        · exact ⟨d0, h0, p0, k0, v0, by rw [eT, if_neg hxi] at hx; exact hx⟩
    have same4 : ∀ j, dirtyB s4.blocks j = dirtyB T.blocks j ∧ hashB s4.blocks j = hashB T.blocks j := by
      intro j
      by_cases hji : j = idx
      · rw [hji]; simp [dirtyB, hashB, blockAt, hi4, hTi, ← hBk, Node.hash]
      · have : T.blocks[j]? = s4.blocks[j]? := by rw [eT, if_neg hji]
        simp [dirtyB, hashB, blockAt, this]
    have hole4 : LH s4.blocks (some opi) (IT.graft idx ni .left N t) := LH.congr (fun j _ => same4 j) hole
    have l5 := markLineageDirty_LH opi s4 _ pi4 (by rw [free4]; exact fo) ho4 kp4 hole4 s5 e5
    refine LH.congr ?_ l5
    intro j _
    have hg5 : ∀ x, (s5.write idx B).blocks[x]? = if x = idx then some B else s5.blocks[x]? := by
      intro x; rw [write_get _ _ _ (by rw [hss.len, len4]; exact li)]
    by_cases hji : j = idx
    · rw [hji]
      have : (s5.write idx B).blocks[idx]? = some B := by rw [hg5, if_pos rfl]
      subst hBk
      simp [dirtyB, hashB, blockAt, this, hi5, Node.hash]
    · simp [dirtyB, hashB, blockAt, hg5, hji]
  unfold insertSubtreeAtKey
  simp only [bind_run, e1, getLeafByKey_run, hk1, hidx1, getNode, getBlock_run, hN1, pure_run, writeBlock_run]
  rw [if_neg (Nat.not_lt.mpr (Nat.le_of_lt l1))]
  have hhash : (Node.leaf oh (some opi) ok ov).hash = oh := rfl
  have hpar : (Node.leaf oh (some opi) ok ov).parent = some opi := rfl
  simp only [hhash, hpar, hX, hs2]
  rw [updateParent_run N.idx (some ni) s2 bN hN2]
  simp only [hY, hs3, bind_run]
  rw [replaceChild_run' s3 opi idx ni ho3 hkid]
  simp only [hZ, hs4, bind_run, e5]
  rw [updateParent_run idx (some ni) s5 _ hi5]
  simp only [pure_run, Node.setParent, hBk]

/-! ### the breadth-first search for the minimum-height leaf -/

def IT.bfs : Nat → List IT → Option (Nat × KVH)
  | 0, _ => none
  | _+1, [] => none
  | _+1, .leaf i k v h :: _ => some (i, k, v, h)
  | f+1, .node _ l r :: rest => IT.bfs f (rest ++ [l, r])

theorem IT.bfs_erase (f : Nat) (L : List IT) :
    (IT.bfs f L).map (·.2) = T.bfsLeaf f (L.map IT.erase) := by
  induction f generalizing L with
  | zero => simp [IT.bfs, T.bfsLeaf]
  | succ f ih =>
    cases L with
    | nil => simp [IT.bfs, T.bfsLeaf]
    | cons c rest =>
      cases c with
      | leaf i k v h => simp [IT.bfs, T.bfsLeaf, IT.erase]
      | node i l r =>
        simp only [IT.bfs, List.map_cons, IT.erase, T.bfsLeaf]
        rw [ih]; simp

theorem IT.bfs_mem (f : Nat) (L : List IT) (e : Nat × KVH) (h : IT.bfs f L = some e) :
    e ∈ L.flatMap IT.leaves := by
  induction f generalizing L with
  | zero => simp [IT.bfs] at h
  | succ f ih =>
    cases L with
    | nil => simp [IT.bfs] at h
    | cons c rest =>
      cases c with
      | leaf i k v hh =>
        simp only [IT.bfs, Option.some.injEq] at h
        subst h; simp [IT.leaves]
      | node i l r =>
        simp only [IT.bfs] at h
        have := ih _ h
        simp only [List.flatMap_append, List.flatMap_cons, List.flatMap_nil, List.append_nil, List.mem_append,
          IT.leaves] at this ⊢
        rcases this with a | a | a
        · exact Or.inr a
        · exact Or.inl (Or.inl a)
        · exact Or.inl (Or.inr a)

theorem IT.bfs_mono (f : Nat) (L : List IT) (e : Nat × KVH) (h : IT.bfs f L = some e) (g : Nat) (hg : f ≤ g) :
    IT.bfs g L = some e := by
  induction f generalizing L g with
  | zero => simp [IT.bfs] at h
  | succ f ih =>
    cases g with
    | zero => omega
    | succ g =>
      cases L with
      | nil => simp [IT.bfs] at h
      | cons c rest =>
        cases c with
        | leaf i k v hh => simpa [IT.bfs] using h
        | node i l r =>
          simp only [IT.bfs] at h ⊢
          exact ih _ h g (by omega)

/-- the iterator of the blob finds the same leaf -/
theorem bfAux_sim (bl : List Block) (f : Nat) (L : List IT) (q : List Nat)
    (hrep : ∀ c ∈ L, ∃ p, Rep bl p c) (hn : (L.flatMap IT.indices).Nodup)
    (hq : ∀ j ∈ L.flatMap IT.indices, j ∉ q) (i : Nat) (k : KeyId) (v : ValueId) (h : Hash)
    (hb : IT.bfs f L = some (i, k, v, h)) :
    ∃ p, bfAux bl f (L.map IT.idx) q = some (i, { dirty := false, node := .leaf h p k v }) := by
  induction f generalizing L q with
  | zero => simp [IT.bfs] at hb
  | succ f ih =>
    cases L with
    | nil => simp [IT.bfs] at hb
    | cons c rest =>
      cases c with
      | leaf i' k' v' h' =>
        simp only [IT.bfs, Option.some.injEq, Prod.mk.injEq] at hb
        obtain ⟨a1, a2, a3, a4⟩ := hb
        subst a1; subst a2; subst a3; subst a4
        obtain ⟨p, hr⟩ := hrep (.leaf i' k' v' h') List.mem_cons_self
        simp only [Rep] at hr
        refine ⟨p, ?_⟩
        show bfAux bl (f + 1) (i' :: rest.map IT.idx) q = _
        simp only [bfAux, hr]
      | node i' l r =>
        simp only [IT.bfs] at hb
        obtain ⟨p, hr⟩ := hrep (.node i' l r) List.mem_cons_self
        simp only [Rep] at hr
        obtain ⟨⟨d, hh, hblk⟩, hl, hr'⟩ := hr
        have hi'q : i' ∉ q := hq i' (by simp [IT.indices])
        have hc : q.contains i' = false := by simp [hi'q]
        simp only [List.flatMap_cons, IT.indices, List.cons_append, List.nodup_cons] at hn
        obtain ⟨⟨hil, hir⟩, hn2⟩ : (i' ∉ l.indices ++ r.indices ∧ i' ∉ rest.flatMap IT.indices) ∧
            ((l.indices ++ r.indices) ++ rest.flatMap IT.indices).Nodup := by
          refine ⟨?_, hn.2⟩
          have := hn.1
          simp only [List.mem_append, not_or] at this ⊢
          exact ⟨⟨this.1.1, this.1.2⟩, this.2⟩
        have hperm : (rest ++ [l, r]).flatMap IT.indices ~ (l.indices ++ r.indices) ++ rest.flatMap IT.indices := by
          simp only [List.flatMap_append, List.flatMap_cons, List.flatMap_nil, List.append_nil]
          exact List.perm_append_comm
        have hA : ∀ c ∈ rest ++ [l, r], ∃ p, Rep bl p c := by
          intro c hc'
          rcases List.mem_append.mp hc' with a | a
          · exact hrep c (List.mem_cons_of_mem _ a)
          · simp only [List.mem_cons, List.not_mem_nil, or_false] at a
            rcases a with a | a
            · exact ⟨some i', a ▸ hl⟩
            · exact ⟨some i', a ▸ hr'⟩
        have hB : ∀ j ∈ (rest ++ [l, r]).flatMap IT.indices, j ∉ i' :: q := by
          intro j hj hm
          have hj' := hperm.mem_iff.mp hj
          rcases List.mem_cons.mp hm with a | a
          · subst a
            rcases List.mem_append.mp hj' with b | b
            · exact hil b
            · exact hir b
          · refine hq j ?_ a
            simp only [List.flatMap_cons, IT.indices, List.cons_append, List.mem_cons, List.mem_append] at hj' ⊢
            rcases hj' with (b | b) | b
            · exact Or.inr (Or.inl (Or.inl b))
            · exact Or.inr (Or.inl (Or.inr b))
            · exact Or.inr (Or.inr b)
        obtain ⟨p', hres⟩ := ih (rest ++ [l, r]) (i' :: q) hA (hperm.nodup_iff.mpr hn2) hB hb
        refine ⟨p', ?_⟩
        show bfAux bl (f + 1) (i' :: rest.map IT.idx) q = _
        simp only [bfAux, hblk, hc, Bool.false_eq_true, if_false]
        rw [List.map_append] at hres
        exact hres

/-! ### the attach phase -/

theorem IT.erase_size (t : IT) : t.erase.size = t.indices.length := by
  induction t with
  | leaf i k v h => rfl
  | node i l r ihl ihr => simp only [IT.erase, T.size, IT.indices, List.length_cons, List.length_append, ihl, ihr]

theorem Rep.leaf_parent_some {bl : List Block} {p0 : Nat} {c : IT} (hc : Rep bl (some p0) c)
    {e : Nat × KVH} (he : e ∈ c.leaves) :
    ∃ opi, bl[e.1]? = some { dirty := false, node := .leaf e.2.2.2 (some opi) e.2.1 e.2.2.1 } := by
  induction c generalizing p0 with
  | leaf i k v hh =>
    simp only [IT.leaves, List.mem_singleton] at he
    subst he
    simp only [Rep] at hc
    exact ⟨p0, hc⟩
  | node i l r ihl ihr =>
    simp only [Rep] at hc
    simp only [IT.leaves, List.mem_append] at he
    rcases he with a | a
    · exact ihl hc.2.1 a
    · exact ihr hc.2.2 a

theorem leafFun_eq : (fun (x : KVH) => match x with | (k, v, h) => T.leaf k v h) = fun e => T.leaf e.1 e.2.1 e.2.2 := by
  funext ⟨k, v, h⟩; rfl

/-- the attach phase of `batch_insert`: the remaining items are built into one subtree that is
grafted to the left of the minimum-height leaf -/
theorem batchRest_good {s : Blob} {t : IT} (g : Good s t) (h2 : 2 ≤ t.leaves.length) (l : List KVH)
    (hfresh : ∀ e ∈ l, mapGet s.k2i e.1 = none ∧ mapGet s.h2i e.2.2 = none)
    (hk : (l.map (·.1)).Nodup) (hh : (l.map (·.2.2)).Nodup) :
    ∃ S t', batchRest l s = (.ok (), S) ∧ Good S t'
      ∧ Tree.attach l (some t.erase) = some (some t'.erase)
      ∧ (LH s.blocks none t → LH S.blocks none t') := by
  have hinv := g.linv
  have hlt : ∀ i ∈ s.free, i < s.blocks.length := hinv.freeLt
  cases hl : l with
  | nil => exact ⟨s, t, rfl, g, rfl, id⟩
  | cons x l' =>
    rw [← hl]
    have hne : l ≠ [] := by rw [hl]; simp
    have ft0 : FT s s [] := FT.refl g.freeNodup g.range g.k2i_keys_nodup g.h2i_keys_nodup
    obtain ⟨idxs, s1, G, e1, hi1, he1, ft1⟩ := batchLeaves_ft hlt l ft0 hfresh (by simpa [fLeaves] using hk)
      (by simpa [fLeaves] using hh)
    have ft1' : FT s s1 G := by simpa using ft1
    have hlen : idxs.length = l.length := by
      rw [hi1, List.length_map, ← List.length_map (f := IT.erase), he1, List.length_map]
    obtain ⟨idxs2, s2, Q, e2, hi2, he2, ft2⟩ := buildUp_ft hlt idxs.length G ft1'
    obtain ⟨sub, hsub, _⟩ := T.buildUp_single l.length (l.map fun e => T.leaf e.1 e.2.1 e.2.2)
      (by simpa using hne) (by simp)
    rw [he1, hlen, hsub] at he2
    obtain ⟨N, hQ, hNe⟩ : ∃ N, Q = [N] ∧ N.erase = sub := by
      cases Q with
      | nil => simp at he2
      | cons N Q' =>
        cases Q' with
        | nil => simp only [List.map_cons, List.map_nil, List.cons.injEq, and_true] at he2; exact ⟨N, rfl, he2⟩
        | cons _ _ => simp at he2
    subst hQ
    -- the stored tree is an internal node
    cases t with
    | leaf i k v h => simp [IT.leaves] at h2
    | node i0 a b =>
      -- the minimum-height leaf
      obtain ⟨e, hme, _⟩ := T.minLeaf_some (IT.node i0 a b).erase
      have hbe := IT.bfs_erase (IT.node i0 a b).erase.size [IT.node i0 a b]
      simp only [List.map_cons, List.map_nil] at hbe
      unfold T.minLeaf at hme
      rw [hme] at hbe
      obtain ⟨ie, hie, hie2⟩ := Option.map_eq_some_iff.mp hbe
      obtain ⟨idx, ok, ov, oh⟩ := ie
      simp only at hie2
      subst hie2
      have hmem : (idx, ok, ov, oh) ∈ (IT.node i0 a b).leaves := by
        have := IT.bfs_mem _ _ _ hie
        simpa using this
      have hsz : (IT.node i0 a b).erase.size ≤ 2 * s2.blocks.length + 2 := by
        rw [IT.erase_size]
        have := nodup_bound s.blocks.length _ g.nodup g.rep.lt
        have := ft2.lenLe
        omega
      have hbig := IT.bfs_mono _ _ _ hie _ hsz
      have hrep2 : Rep s2.blocks none (IT.node i0 a b) := by
        refine g.rep.congr ?_
        intro j hj
        have := (g.live_iff j).mpr hj
        exact ft2.same j this.1 this.2
      obtain ⟨p, hbf⟩ := bfAux_sim s2.blocks _ [IT.node i0 a b] [] (by intro c hc; simp at hc; subst hc; exact ⟨none, hrep2⟩)
        (by simpa using g.nodup) (by simp) idx ok ov oh hbig
      have hroot : (IT.node i0 a b).idx = 0 := g.root
      simp only [List.map_cons, List.map_nil, hroot] at hbf
      -- the block of that leaf
      have hgr := g.rep
      simp only [Rep] at hgr
      have hmem' := hmem
      simp only [IT.leaves, List.mem_append] at hmem'
      obtain ⟨opi, hb⟩ : ∃ opi, s.blocks[idx]? = some { dirty := false, node := .leaf oh (some opi) ok ov } := by
        rcases hmem' with m | m
        · exact hgr.2.1.leaf_parent_some m
        · exact hgr.2.2.leaf_parent_some m
      obtain ⟨S, ni, erun, gS, hlhS⟩ := insertSubtree_good g ft2 hmem hb
      refine ⟨S, IT.graft idx ni .left N (IT.node i0 a b), ?_, gS, ?_, hlhS⟩
      · unfold batchRest
        rw [← hi1] at e2
        simp only [bind_run, e1, e2, hi2, List.map_cons, List.map_nil]
        rw [minHeightLeaf_run]
        have hne2 : s2.blocks.isEmpty = false := by
          have h0 := (g.live_iff 0).mpr (by rw [← hroot]; exact IT.idx_mem _)
          have h3 : 0 < s2.blocks.length := Nat.lt_of_lt_of_le h0.1 ft2.lenLe
          cases hb2 : s2.blocks with
          | nil => rw [hb2] at h3; simp at h3
          | cons _ _ => rfl
        rw [hne2]
        simp only [Bool.false_eq_true, if_false, hbf]
        exact erun
      · have hge := IT.graft_erase idx ni .left N ok (IT.node i0 a b) (g.key_iff_idx hmem)
        rw [hge, hNe]
        have hob : T.ofBatch l = some sub := by
          unfold T.ofBatch
          rw [leafFun_eq, hsub]
        unfold Tree.attach
        simp only [hob]
        have hml : (IT.node i0 a b).erase.minLeaf = some (ok, ov, oh) := hme
        rw [hml]
        simp only [IT.erase]

/-! ### `batch_insert` refines the abstract batch -/

theorem SInv.key_iff {s : Blob} {t : Option IT} (hs : SInv s t) (k : KeyId) :
    (mapGet s.k2i k).isSome = true ↔ k ∈ Tree.keys (t.map IT.erase) := by
  cases t with
  | none => simp only [SInv] at hs; subst hs; simp [Blob.empty, mapGet, Tree.keys]
  | some t => exact Good.mem_keys_iff hs k

theorem SInv.hash_iff {s : Blob} {t : Option IT} (hs : SInv s t) (h : Hash) :
    (mapGet s.h2i h).isSome = true ↔ h ∈ Tree.hashes (t.map IT.erase) := by
  cases t with
  | none => simp only [SInv] at hs; subst hs; simp [Blob.empty, mapGet, Tree.hashes]
  | some t => exact Good.mem_hashes_iff hs h

theorem IT.leaves_length_keys (t : IT) : t.erase.keys.length = t.leaves.length := by
  rw [T.keys_eq, IT.erase_entries, List.length_map, List.length_map]

theorem SInv.k2i_len {s : Blob} {t : Option IT} (hs : SInv s t) :
    s.k2i.length = (Tree.keys (t.map IT.erase)).length := by
  cases t with
  | none => simp only [SInv] at hs; subst hs; rfl
  | some t =>
    have g : Good s t := hs
    rw [g.k2i_length]; exact (IT.leaves_length_keys t).symm

theorem SInv.keys_nodup {s : Blob} {t : Option IT} (hs : SInv s t) : (Tree.keys (t.map IT.erase)).Nodup := by
  cases t with
  | none => exact List.nodup_nil
  | some t =>
    have g : Good s t := hs
    show t.erase.keys.Nodup
    rw [T.keys_eq, IT.erase_entries, List.map_map]
    exact g.keys

/-- the validation loop computes the abstract freshness test -/
theorem batchValid_iff (s : Blob) (T : Tree)
    (hK : ∀ k, (mapGet s.k2i k).isSome = true ↔ k ∈ Tree.keys T)
    (hH : ∀ h, (mapGet s.h2i h).isSome = true ↔ h ∈ Tree.hashes T)
    (l : List KVH) (ks : List KeyId) (hs : List Hash) :
    batchValid s l ks hs = true ↔
      ((l.map (·.1)).Nodup ∧ (l.map (·.2.2)).Nodup
        ∧ ∀ e ∈ l, e.1 ∉ Tree.keys T ∧ e.2.2 ∉ Tree.hashes T ∧ e.1 ∉ ks ∧ e.2.2 ∉ hs) := by
  induction l generalizing ks hs with
  | nil => simp [batchValid]
  | cons x l ih =>
    obtain ⟨k, v, h⟩ := x
    simp only [batchValid]
    by_cases c1 : ((mapGet s.k2i k).isSome || ks.contains k) = true
    · rw [if_pos c1]
      simp only [Bool.false_eq_true, false_iff]
      intro hc
      have := hc.2.2 (k, v, h) (by simp)
      simp only [Bool.or_eq_true, List.contains_iff_mem] at c1
      rcases c1 with a | a
      · exact this.1 ((hK k).mp a)
      · exact this.2.2.1 a
    · rw [if_neg c1]
      simp only [Bool.or_eq_true, List.contains_iff_mem, not_or] at c1
      by_cases c2 : ((mapGet s.h2i h).isSome || hs.contains h) = true
      · rw [if_pos c2]
        simp only [Bool.false_eq_true, false_iff]
        intro hc
        have := hc.2.2 (k, v, h) (by simp)
        simp only [Bool.or_eq_true, List.contains_iff_mem] at c2
        rcases c2 with a | a
        · exact this.2.1 ((hH h).mp a)
        · exact this.2.2.2 a
      · rw [if_neg c2]
        simp only [Bool.or_eq_true, List.contains_iff_mem, not_or] at c2
        rw [ih]
        simp only [List.map_cons, List.nodup_cons, List.mem_cons, forall_eq_or_imp, List.mem_map, not_exists, not_and]
        constructor
        · rintro ⟨n1, n2, hall⟩
          refine ⟨⟨?_, n1⟩, ⟨?_, n2⟩, ⟨fun a => c1.1 ((hK k).mpr a), fun a => c2.1 ((hH h).mpr a), c1.2, c2.2⟩, ?_⟩
          · intro e he hek
            exact (hall e he).2.2.1 (Or.inl hek)
          · intro e he hek
            exact (hall e he).2.2.2 (Or.inl hek)
          · intro e he
            have := hall e he
            exact ⟨this.1, this.2.1, fun a => this.2.2.1 (Or.inr a), fun a => this.2.2.2 (Or.inr a)⟩
        · rintro ⟨⟨m1, n1⟩, ⟨m2, n2⟩, _, hall⟩
          refine ⟨n1, n2, ?_⟩
          intro e he
          have := hall e he
          refine ⟨this.1, this.2.1, ?_, ?_⟩
          · rintro (a | a)
            · exact m1 e he a
            · exact this.2.2.1 a
          · rintro (a | a)
            · exact m2 e he a
            · exact this.2.2.2 a

theorem batchValid_eq {s : Blob} {t : Option IT} (hs : SInv s t) (l : List KVH) :
    batchValid s l [] [] = Tree.batchFresh l (t.map IT.erase) := by
  rw [Bool.eq_iff_iff, batchValid_iff s _ hs.key_iff hs.hash_iff]
  constructor
  · rintro ⟨n1, n2, hall⟩
    simp only [Tree.batchFresh, Bool.and_eq_true, decide_eq_true_eq, List.all_eq_true]
    refine ⟨⟨n1, n2⟩, ?_⟩
    intro e he
    obtain ⟨k, v, h⟩ := e
    have := hall _ he
    exact ⟨this.1, this.2.1⟩
  · intro hf
    obtain ⟨n1, n2, hall⟩ := Tree.fresh_unpack hf
    exact ⟨n1, n2, fun e he => ⟨(hall e he).1, (hall e he).2, by simp, by simp⟩⟩

/-- one automatic insert of a fresh key / hash at both levels -/
theorem ins_auto_step {s : Blob} {t : Option IT} (hs : SInv s t) (k : KeyId) (v : ValueId) (h : Hash)
    (hk : k ∉ Tree.keys (t.map IT.erase)) (hh : h ∉ Tree.hashes (t.map IT.erase)) :
    ∃ a s1 t1, insert k v h .auto s = (.ok a, s1) ∧ Good s1 t1
      ∧ Tree.insert k v h .auto (t.map IT.erase) = some (some t1.erase)
      ∧ (LHo s.blocks t → LH s1.blocks none t1) := by
  obtain ⟨T1, hT1, _⟩ := Tree.insert_auto_some k v h (t.map IT.erase) hk hh
  obtain ⟨t', hs', he, hsucc, hlh⟩ := ins_refines hs k v h .auto
  have hst : Tree.step (.ins k v h .auto) (t.map IT.erase) = (true, some T1) := by
    simp only [Tree.step, hT1, Tree.orKeep]
  rw [hst] at he hsucc
  have hstep : step (.ins k v h .auto) s = (do let _ ← insert k v h .auto; pure () : M Unit) s := rfl
  rw [hstep, discard_run] at hs' hsucc hlh
  cases hins : insert k v h .auto s with
  | mk r s1 =>
    rw [hins] at hs' hsucc hlh
    cases r with
    | error e => simp [errOf] at hsucc
    | ok a =>
      simp only at hs'
      cases t' with
      | none => simp at he
      | some t1 =>
        simp only [Option.map_some, Option.some.injEq] at he
        exact ⟨a, s1, t1, rfl, hs', by rw [hT1, he], hlh⟩

theorem Good.fresh_key {s : Blob} {t : IT} (g : Good s t) {k : KeyId} (hk : k ∉ t.erase.keys) :
    mapGet s.k2i k = none := isSome_false_iff _ (fun a => hk ((g.mem_keys_iff k).mp a))

theorem Good.fresh_hash {s : Blob} {t : IT} (g : Good s t) {h : Hash} (hh : h ∉ t.erase.hashes) :
    mapGet s.h2i h = none := isSome_false_iff _ (fun a => hh ((g.mem_hashes_iff h).mp a))

/-- a validated batch commits, and the result is the abstract one -/
theorem batchCommit_refines {s : Blob} {t : Option IT} (hs : SInv s t) (l : List KVH)
    (hf : Tree.batchFresh l (t.map IT.erase) = true) :
    ∃ S t', batchCommit l s = (.ok (), S) ∧ SInv S t'
      ∧ Tree.batchUnchecked l (t.map IT.erase) = (true, t'.map IT.erase)
      ∧ (LHo s.blocks t → LHo S.blocks t') := by
  obtain ⟨hkn, hhn, hfr⟩ := Tree.fresh_unpack hf
  have hnd := hs.keys_nodup
  unfold batchCommit Tree.batchUnchecked
  simp only [bind_run, M.get]
  rw [hs.k2i_len]
  by_cases hle : (Tree.keys (t.map IT.erase)).length ≤ 1
  · rw [if_pos hle, if_pos hle]
    cases hrev : l.reverse with
    | nil => exact ⟨s, t, rfl, hs, rfl, id⟩
    | cons x1 r1 =>
      have hl : l = r1.reverse ++ [x1] := by
        have := congrArg List.reverse hrev; simpa using this
      obtain ⟨k1, v1, h1⟩ := x1
      have hx1 := hfr (k1, v1, h1) (by rw [hl]; simp)
      obtain ⟨a1, s1, t1, e1, g1, hi1, hlh1⟩ := ins_auto_step hs k1 v1 h1 hx1.1 hx1.2
      obtain ⟨p1, _, _⟩ := Tree.insert_spec hnd hi1
      have pk1 := Tree.keys_perm_of_entries (l := [(k1, v1, h1)]) (by simpa using p1)
      have ph1 := Tree.hashes_perm_of_entries (l := [(k1, v1, h1)]) (by simpa using p1)
      simp only [bind_run, e1, hi1]
      cases r1 with
      | nil => exact ⟨s1, some t1, rfl, g1, rfl, hlh1⟩
      | cons x2 r2 =>
        obtain ⟨k2, v2, h2⟩ := x2
        have hl2 : l = r2.reverse ++ [(k2, v2, h2), (k1, v1, h1)] := by rw [hl]; simp
        have hx2 := hfr (k2, v2, h2) (by rw [hl2]; simp)
        rw [hl2] at hkn hhn
        simp only [List.map_append, List.map_cons, List.map_nil, List.map_reverse] at hkn hhn
        obtain ⟨hkr, hk21, hkd⟩ := T.nodup_append' hkn
        obtain ⟨hhr, hh21, hhd⟩ := T.nodup_append' hhn
        simp only [List.nodup_cons, List.mem_singleton, List.not_mem_nil, not_false_eq_true, List.nodup_nil, and_true] at hk21 hh21
        have hs1 : SInv s1 (some t1) := g1
        have hk2 : k2 ∉ Tree.keys ((some t1).map IT.erase) := by
          intro hm
          have := pk1.mem_iff.mp hm
          simp only [List.map_cons, List.map_nil, List.singleton_append, List.mem_cons] at this
          rcases this with a | a
          · exact hk21 a
          · exact hx2.1 a
        have hh2 : h2 ∉ Tree.hashes ((some t1).map IT.erase) := by
          intro hm
          have := ph1.mem_iff.mp hm
          simp only [List.map_cons, List.map_nil, List.singleton_append, List.mem_cons] at this
          rcases this with a | a
          · exact hh21 a
          · exact hx2.2 a
        obtain ⟨a2, s2, t2, e2, g2, hi2, hlh2⟩ := ins_auto_step hs1 k2 v2 h2 hk2 hh2
        obtain ⟨p2, _, _⟩ := Tree.insert_spec (hs1.keys_nodup) hi2
        have pk2 := Tree.keys_perm_of_entries (l := [(k2, v2, h2)]) (by simpa using p2)
        have ph2 := Tree.hashes_perm_of_entries (l := [(k2, v2, h2)]) (by simpa using p2)
        simp only [Option.map_some] at hi2 pk2 ph2
        simp only [bind_run, e2, hi2]
        -- the remaining items
        have hlen2 : 2 ≤ t2.leaves.length := by
          rw [← IT.leaves_length_keys]
          have a := pk2.length_eq
          have b := pk1.length_eq
          simp only [Tree.keys, List.map_cons, List.map_nil, List.singleton_append, List.length_cons] at a b
          omega
        have hfr2 : ∀ e ∈ r2.reverse, mapGet s2.k2i e.1 = none ∧ mapGet s2.h2i e.2.2 = none := by
          intro e he
          have hel : e ∈ l := by rw [hl2]; exact List.mem_append.mpr (Or.inl he)
          have hxe := hfr e hel
          have hek : e.1 ∈ (r2.map (·.1)).reverse := by
            rw [← List.map_reverse]; exact List.mem_map_of_mem he
          have heh : e.2.2 ∈ (r2.map (·.2.2)).reverse := by
            rw [← List.map_reverse]; exact List.mem_map_of_mem he
          constructor
          · apply g2.fresh_key
            intro hm
            have := pk2.mem_iff.mp hm
            simp only [List.map_cons, List.map_nil, List.singleton_append, List.mem_cons] at this
            rcases this with a | a
            · exact hkd _ hek (by rw [a]; simp)
            · have := pk1.mem_iff.mp a
              simp only [List.map_cons, List.map_nil, List.singleton_append, List.mem_cons] at this
              rcases this with c | c
              · exact hkd _ hek (by rw [c]; simp)
              · exact hxe.1 c
          · apply g2.fresh_hash
            intro hm
            have := ph2.mem_iff.mp hm
            simp only [List.map_cons, List.map_nil, List.singleton_append, List.mem_cons] at this
            rcases this with a | a
            · exact hhd _ heh (by rw [a]; simp)
            · have := ph1.mem_iff.mp a
              simp only [List.map_cons, List.map_nil, List.singleton_append, List.mem_cons] at this
              rcases this with c | c
              · exact hhd _ heh (by rw [c]; simp)
              · exact hxe.2 c
        obtain ⟨S, t3, e3, g3, ha3, hl3⟩ := batchRest_good g2 hlen2 r2.reverse hfr2
          (by rw [List.map_reverse]; exact hkr) (by rw [List.map_reverse]; exact hhr)
        refine ⟨S, some t3, e3, g3, ?_, fun h0 => hl3 (hlh2 (hlh1 h0))⟩
        simp only [ha3, Option.map_some]
  · rw [if_neg hle, if_neg hle]
    cases t with
    | none => simp [Tree.keys] at hle
    | some tt =>
      have g : Good s tt := hs
      have hlen2 : 2 ≤ tt.leaves.length := by
        rw [← IT.leaves_length_keys]
        simp only [Option.map_some, Tree.keys] at hle
        omega
      obtain ⟨S, t3, e3, g3, ha3, hl3⟩ := batchRest_good g hlen2 l
        (fun e he => ⟨g.fresh_key (hfr e he).1, g.fresh_hash (hfr e he).2⟩) hkn hhn
      refine ⟨S, some t3, e3, g3, ?_, hl3⟩
      simp only [Option.map_some, ha3]

theorem batch_refines {s : Blob} {t : Option IT} (hs : SInv s t) (l : List KVH) : Refines (.batch l) s t := by
  unfold Refines
  have hstep : step (.batch l) s = batchInsert l s := rfl
  have hT : Tree.step (.batch l) (t.map IT.erase) = Tree.batch l (t.map IT.erase) := rfl
  rw [hstep, hT]
  unfold batchInsert Tree.batch
  simp only [bind_run, M.get]
  rw [batchValid_eq hs]
  by_cases hf : Tree.batchFresh l (t.map IT.erase) = true
  · rw [if_pos hf, if_pos hf]
    obtain ⟨S, t', e, hs', hb, hlh⟩ := batchCommit_refines hs l hf
    rw [e, hb]
    exact ⟨t', hs', rfl, by simp [errOf], hlh⟩
  · rw [if_neg hf, if_neg hf]
    exact ⟨t, hs, rfl, by simp [errOf, M.throw], id⟩

end ChiaModel.Blob
