import ChiaModel.Lemmas.Interned
/-
Invariants of the two builder state machines (Model/Builders.lean).
-/
namespace ChiaModel.Bld
open ChiaModel ChiaModel.Gn

theorem wadd_exact {a b : Nat} (h : a + b < W) : wadd a b = a + b := Nat.mod_eq_of_lt h
theorem wmul_exact {a b : Nat} (h : a * b < W) : wmul a b = a * b := Nat.mod_eq_of_lt h

theorem wadd2_exact {a b c : Nat} (h : a + b + c < W) : wadd (wadd a b) c = a + b + c := by
  rw [wadd_exact (a := a) (b := b) (by omega), wadd_exact h]
theorem wadd3_exact {a b c d : Nat} (h : a + b + c + d < W) : wadd (wadd (wadd a b) c) d = a + b + c + d := by
  rw [wadd2_exact (a := a) (b := b) (c := c) (by omega), wadd_exact h]
theorem wadd4_exact {a b c d e : Nat} (h : a + b + c + d + e < W) : wadd (wadd (wadd (wadd a b) c) d) e = a + b + c + d + e := by
  rw [wadd3_exact (a := a) (b := b) (c := c) (d := d) (by omega), wadd_exact h]

/-- the byte cost the interned builder charges for a list of items, without wrap-around -/
def byteSum (cpb : Nat) (items : List Sexp) : Nat := (items.map (fun it => spendVbytes it * cpb)).sum

theorem byteSum_append (cpb : Nat) (a b : List Sexp) : byteSum cpb (a ++ b) = byteSum cpb a + byteSum cpb b := by
  simp [byteSum, List.sum_append]

theorem byteSum_reverse (cpb : Nat) (a : List Sexp) : byteSum cpb a.reverse = byteSum cpb a := by
  simp [byteSum, List.map_reverse, List.sum_reverse]

theorem foldl_byteCost_exact (cpb : Nat) (items : List Sexp) : ∀ acc, acc + byteSum cpb items < W →
    items.foldl (fun acc it => wadd acc (wmul (spendVbytes it) cpb)) acc = acc + byteSum cpb items := by
  induction items with
  | nil => intro acc _; simp [byteSum]
  | cons it rest ih =>
    intro acc h
    have hs : byteSum cpb (it :: rest) = spendVbytes it * cpb + byteSum cpb rest := by simp [byteSum]
    rw [hs] at h
    rw [List.foldl_cons, wmul_exact (by omega), wadd_exact (by omega), ih _ (by omega), hs]
    omega

theorem newByteCost_exact (cpb : Nat) (items : List Sexp) (h : byteSum cpb items < W) :
    newByteCost cpb items = byteSum cpb items := by
  unfold newByteCost
  rw [foldl_byteCost_exact cpb items 0 (by omega)]; omega

/-! ## hypotheses under which no `u64` sum can wrap -/

/-- the constants: a limit below 2^62 that is at least the cost of the empty generator -/
structure Cfg (floorBytes cpb maxCost : Nat) : Prop where
  max_lt : maxCost < 2 ^ 62
  floor : floorBytes * cpb + quoteCost ≤ maxCost

/-- an add whose declared cost is at most 2^63 and whose own byte cost does not overflow -/
structure Add.Small (cpb : Nat) (op : Add) : Prop where
  declared : op.cost ≤ 2 ^ 63
  bytes : byteSum cpb op.items ≤ 2 ^ 62
  serBytes : (op.sizeAfter + 2) * cpb ≤ 2 ^ 62     -- (compressed builder: the oracle sizes are sane)
  serSize : op.sizeAfter + 2 ≤ 2 ^ 62

def isAdded : Res → Bool
  | .ok true _ => true
  | _ => false

/-! ## the interned builder -/

theorem ISt.run_nil (s : ISt) : s.run [] = s := by simp only [ISt.run, List.foldl_nil]
theorem ISt.run_cons (s : ISt) (op : Add) (rest : List Add) : s.run (op :: rest) = (s.step op).1.run rest := by
  simp only [ISt.run, List.foldl_cons]

/-- the adds of a history that the builder accepts, in order -/
def ISt.accepted (s : ISt) : List Add → List Add
  | [] => []
  | op :: rest => (if isAdded (s.step op).2 then [op] else []) ++ ISt.accepted (s.step op).1 rest

theorem ISt.step_obs (s : ISt) (op : Add) :
    (s.step op).1.spends = (if isAdded (s.step op).2 then op.items else []) ++ s.spends ∧
    (s.step op).1.sig = s.sig ++ (if isAdded (s.step op).2 then op.tags else []) ∧
    (s.step op).1.cpb = s.cpb ∧ (s.step op).1.maxCost = s.maxCost := by
  unfold ISt.step
  simp only
  split
  · simp [isAdded]
  · split
    · simp [isAdded]
    · split
      · simp [isAdded]
      · split
        · simp [isAdded]
        · simp [isAdded]

theorem ISt.run_obs (ops : List Add) : ∀ (s : ISt),
    (s.run ops).spends = ((s.accepted ops).reverse.flatMap Add.items) ++ s.spends ∧
    (s.run ops).sig = s.sig ++ (s.accepted ops).flatMap Add.tags ∧
    (s.run ops).cpb = s.cpb ∧ (s.run ops).maxCost = s.maxCost := by
  induction ops with
  | nil => intro s; exact ⟨by simp only [ISt.run_nil, ISt.accepted, List.reverse_nil, List.flatMap_nil, List.nil_append], by simp only [ISt.run_nil, ISt.accepted, List.flatMap_nil, List.append_nil], by rw [ISt.run_nil], by rw [ISt.run_nil]⟩
  | cons op rest ih =>
    intro s
    obtain ⟨h1, h2, h3, h4⟩ := s.step_obs op
    obtain ⟨i1, i2, i3, i4⟩ := ih (s.step op).1
    simp only [ISt.run_cons, ISt.accepted]
    refine ⟨?_, ?_, by rw [i3, h3], by rw [i4, h4]⟩
    · rw [i1, h1]
      by_cases ha : isAdded (s.step op).2 = true
      · simp [ha, List.flatMap_append]
      · simp [ha]
    · rw [i2, h2]
      by_cases ha : isAdded (s.step op).2 = true
      · simp [ha]
      · simp [ha]

/-- what holds in every state the interned builder can reach under the hypotheses -/
structure IInv (s : ISt) : Prop where
  max_lt : s.maxCost < 2 ^ 62
  bytes : s.byteCost = byteSum s.cpb s.spends
  bound : s.byteCost + wrapperVbytes * s.cpb + s.blockCost ≤ s.maxCost

theorem IInv.init {cpb maxCost : Nat} (h : Cfg wrapperVbytes cpb maxCost) : IInv (ISt.init cpb maxCost) := by
  refine ⟨h.max_lt, ?_, ?_⟩
  · simp [ISt.init, byteSum]
  · have := h.floor
    simp only [ISt.init]; omega

/-- under the invariant and for a small add, the three guards compute the true sums -/
theorem IInv.guards {s : ISt} (hi : IInv s) {op : Add} (hs : op.Small s.cpb) :
    s.wrapperCost = wrapperVbytes * s.cpb ∧
    wadd (wadd (wadd s.byteCost s.wrapperCost) s.blockCost) minCostThreshold = s.byteCost + wrapperVbytes * s.cpb + s.blockCost + minCostThreshold ∧
    wadd (wadd (wadd s.byteCost s.wrapperCost) s.blockCost) op.cost = s.byteCost + wrapperVbytes * s.cpb + s.blockCost + op.cost ∧
    wadd s.byteCost (newByteCost s.cpb op.items.reverse) = s.byteCost + byteSum s.cpb op.items ∧
    wadd (wadd (wadd (wadd s.byteCost (newByteCost s.cpb op.items.reverse)) s.wrapperCost) s.blockCost) op.cost
      = s.byteCost + byteSum s.cpb op.items + wrapperVbytes * s.cpb + s.blockCost + op.cost ∧
    wadd s.blockCost op.cost = s.blockCost + op.cost := by
  have h1 := hi.max_lt
  have h2 := hi.bound
  have h3 := hs.declared
  have h4 := hs.bytes
  have hw : s.wrapperCost = wrapperVbytes * s.cpb := by
    unfold ISt.wrapperCost; apply wmul_exact; simp only [W]; omega
  have hn : newByteCost s.cpb op.items.reverse = byteSum s.cpb op.items := by
    rw [newByteCost_exact _ _ (by rw [byteSum_reverse]; simp only [W]; omega), byteSum_reverse]
  have hmin : minCostThreshold = 6000000 := rfl
  rw [hw, hn]
  have hW : W = 2 ^ 64 := rfl
  refine ⟨rfl, ?_, ?_, ?_, ?_, ?_⟩
  · exact wadd3_exact (by omega)
  · exact wadd3_exact (by omega)
  · exact wadd_exact (by omega)
  · exact wadd4_exact (by omega)
  · exact wadd_exact (by omega)

/-! the five exits of `InternedBlockBuilder::add_spend_bundles` -/

theorem ISt.step_near {s : ISt} {op : Add}
    (h1 : wadd (wadd (wadd s.byteCost s.wrapperCost) s.blockCost) minCostThreshold > s.maxCost) :
    s.step op = (s, .ok false true) := by
  unfold ISt.step; simp only []; rw [if_pos h1]

theorem ISt.step_pre {s : ISt} {op : Add}
    (h1 : ¬ wadd (wadd (wadd s.byteCost s.wrapperCost) s.blockCost) minCostThreshold > s.maxCost)
    (h2 : wadd (wadd (wadd s.byteCost s.wrapperCost) s.blockCost) op.cost > s.maxCost) :
    s.step op = ({ s with numSkipped := s.numSkipped + 1 }, .ok false (skipResult (s.numSkipped + 1))) := by
  unfold ISt.step; simp only []; rw [if_neg h1, if_pos h2]

theorem ISt.step_bad {s : ISt} {op : Add}
    (h1 : ¬ wadd (wadd (wadd s.byteCost s.wrapperCost) s.blockCost) minCostThreshold > s.maxCost)
    (h2 : ¬ wadd (wadd (wadd s.byteCost s.wrapperCost) s.blockCost) op.cost > s.maxCost) (h3 : op.bad = true) :
    s.step op = (s, .err) := by
  unfold ISt.step; simp only []; rw [if_neg h1, if_neg h2, if_pos h3]

theorem ISt.step_post {s : ISt} {op : Add}
    (h1 : ¬ wadd (wadd (wadd s.byteCost s.wrapperCost) s.blockCost) minCostThreshold > s.maxCost)
    (h2 : ¬ wadd (wadd (wadd s.byteCost s.wrapperCost) s.blockCost) op.cost > s.maxCost) (h3 : ¬ op.bad = true)
    (h4 : wadd (wadd (wadd (wadd s.byteCost (newByteCost s.cpb op.items.reverse)) s.wrapperCost) s.blockCost) op.cost > s.maxCost) :
    s.step op = ({ s with numSkipped := s.numSkipped + 1 }, .ok false (skipResult (s.numSkipped + 1))) := by
  unfold ISt.step; simp only []; rw [if_neg h1, if_neg h2, if_neg h3, if_pos h4]

theorem ISt.step_acc {s : ISt} {op : Add}
    (h1 : ¬ wadd (wadd (wadd s.byteCost s.wrapperCost) s.blockCost) minCostThreshold > s.maxCost)
    (h2 : ¬ wadd (wadd (wadd s.byteCost s.wrapperCost) s.blockCost) op.cost > s.maxCost) (h3 : ¬ op.bad = true)
    (h4 : ¬ wadd (wadd (wadd (wadd s.byteCost (newByteCost s.cpb op.items.reverse)) s.wrapperCost) s.blockCost) op.cost > s.maxCost) :
    ∃ d, s.step op = ({ s with byteCost := wadd s.byteCost (newByteCost s.cpb op.items.reverse), spends := op.items ++ s.spends,
                               blockCost := wadd s.blockCost op.cost, sig := s.sig ++ op.tags }, .ok true d) := by
  unfold ISt.step; simp only []; rw [if_neg h1, if_neg h2, if_neg h3, if_neg h4]; exact ⟨_, rfl⟩

/-- the interned step, as a specification: accepted iff the near-full guard does not fire, the reveals
decode, and the TRUE total (old estimate + the batch's own weight + declared cost) is within the limit -/
theorem ISt.step_spec {s : ISt} (hi : IInv s) {op : Add} (hs : op.Small s.cpb) :
    (isAdded (s.step op).2 = true ↔
      (¬ s.byteCost + wrapperVbytes * s.cpb + s.blockCost + minCostThreshold > s.maxCost ∧ op.bad = false ∧
       s.byteCost + byteSum s.cpb op.items + wrapperVbytes * s.cpb + s.blockCost + op.cost ≤ s.maxCost)) ∧
    (isAdded (s.step op).2 = true →
      (s.step op).1.byteCost = s.byteCost + byteSum s.cpb op.items ∧ (s.step op).1.blockCost = s.blockCost + op.cost ∧
      (s.step op).1.numSkipped = s.numSkipped) ∧
    (isAdded (s.step op).2 = false → (s.step op).1 = { s with numSkipped := (s.step op).1.numSkipped }) := by
  obtain ⟨g0, g1, g2, g3, g4, g5⟩ := hi.guards hs
  have hb := hi.bound
  by_cases c1 : wadd (wadd (wadd s.byteCost s.wrapperCost) s.blockCost) minCostThreshold > s.maxCost
  · rw [ISt.step_near c1]
    rw [g1] at c1
    refine ⟨?_, (fun h => by simp [isAdded] at h), (fun _ => rfl)⟩
    constructor
    · intro h; simp [isAdded] at h
    · rintro ⟨h, _, _⟩; exact absurd c1 h
  · by_cases c2 : wadd (wadd (wadd s.byteCost s.wrapperCost) s.blockCost) op.cost > s.maxCost
    · rw [ISt.step_pre c1 c2]
      rw [g2] at c2
      refine ⟨?_, (fun h => by simp [isAdded] at h), (fun _ => rfl)⟩
      constructor
      · intro h; simp [isAdded] at h
      · rintro ⟨_, _, h⟩; omega
    · by_cases c3 : op.bad = true
      · rw [ISt.step_bad c1 c2 c3]
        refine ⟨?_, (fun h => by simp [isAdded] at h), (fun _ => rfl)⟩
        constructor
        · intro h; simp [isAdded] at h
        · rintro ⟨_, h, _⟩; rw [c3] at h; cases h
      · by_cases c4 : wadd (wadd (wadd (wadd s.byteCost (newByteCost s.cpb op.items.reverse)) s.wrapperCost) s.blockCost) op.cost > s.maxCost
        · rw [ISt.step_post c1 c2 c3 c4]
          rw [g4] at c4
          refine ⟨?_, (fun h => by simp [isAdded] at h), (fun _ => rfl)⟩
          constructor
          · intro h; simp [isAdded] at h
          · rintro ⟨_, _, h⟩; omega
        · obtain ⟨d, hd⟩ := ISt.step_acc c1 c2 c3 c4
          rw [hd]
          rw [g4] at c4; rw [g1] at c1
          refine ⟨?_, (fun _ => ⟨g3, g5, rfl⟩), (fun h => by simp [isAdded] at h)⟩
          constructor
          · intro _
            refine ⟨c1, ?_, by omega⟩
            cases hb : op.bad
            · rfl
            · exact absurd hb c3
          · intro _; rfl

theorem IInv.step {s : ISt} (hi : IInv s) {op : Add} (hs : op.Small s.cpb) : IInv (s.step op).1 := by
  obtain ⟨h1, h2, h3⟩ := ISt.step_spec hi hs
  obtain ⟨o1, _, o3, o4⟩ := s.step_obs op
  by_cases ha : isAdded (s.step op).2 = true
  · obtain ⟨b1, b2, _⟩ := h2 ha
    obtain ⟨_, _, ht⟩ := h1.mp ha
    refine ⟨by rw [o4]; exact hi.max_lt, ?_, ?_⟩
    · rw [b1, o1, o3, ha, if_pos rfl, byteSum_append, hi.bytes]; omega
    · rw [b1, b2, o3, o4]; omega
  · have hf : isAdded (s.step op).2 = false := by simpa using ha
    have := h3 hf
    rw [this]
    exact ⟨hi.max_lt, hi.bytes, hi.bound⟩

/-- every add of the history is small -/
def AllSmall (cpb : Nat) (ops : List Add) : Prop := ∀ op ∈ ops, op.Small cpb

theorem IInv.run (ops : List Add) : ∀ {s : ISt}, IInv s → AllSmall s.cpb ops → IInv (s.run ops) := by
  induction ops with
  | nil => intro s hi _; rw [ISt.run_nil]; exact hi
  | cons op rest ih =>
    intro s hi hs
    rw [ISt.run_cons]
    apply ih (hi.step (hs op List.mem_cons_self))
    intro o ho
    rw [(s.step_obs op).2.2.1]
    exact hs o (List.mem_cons_of_mem _ ho)

theorem byteSum_eq (cpb : Nat) (l : List Sexp) : byteSum cpb l = (l.map (fun it => internedVbytes it + 3)).sum * cpb := by
  induction l with
  | nil => simp [byteSum]
  | cons a l ih =>
    have : byteSum cpb (a :: l) = spendVbytes a * cpb + byteSum cpb l := by simp [byteSum]
    rw [this, ih]; simp only [List.map_cons, List.sum_cons, Nat.add_mul, spendVbytes, costCons]

/-- in every reachable state the exact cost is at most the running estimate, and neither wraps -/
theorem IInv.final_le {s : ISt} (hi : IInv s) :
    s.finalCost = internedVbytes (generator s.spends) * s.cpb + s.blockCost ∧
    s.cost = s.byteCost + wrapperVbytes * s.cpb + s.blockCost ∧
    s.finalCost ≤ s.cost ∧ s.cost ≤ s.maxCost := by
  have h1 := hi.max_lt
  have h2 := hi.bound
  have hg := generator_bound s.spends
  have hsum := byteSum_eq s.cpb s.spends
  have hmul : internedVbytes (generator s.spends) * s.cpb ≤ (11 + (s.spends.map (fun it => internedVbytes it + 3)).sum) * s.cpb :=
    Nat.mul_le_mul_right _ hg
  rw [Nat.add_mul, ← hsum, ← hi.bytes] at hmul
  have hw : wrapperVbytes = 11 := rfl
  rw [hw] at h2
  have hW : W = 2 ^ 64 := rfl
  have e1 : s.finalCost = internedVbytes (generator s.spends) * s.cpb + s.blockCost := by
    unfold ISt.finalCost
    rw [wmul_exact (by omega)]; exact wadd_exact (by omega)
  have e2 : s.cost = s.byteCost + wrapperVbytes * s.cpb + s.blockCost := by
    unfold ISt.cost
    rw [hw, wmul_exact (by omega)]; exact wadd2_exact (by omega)
  refine ⟨e1, e2, ?_, ?_⟩
  · rw [e1, e2, hw]; omega
  · rw [e2, hw]; omega

/-! ## the compressed builder -/

theorem CSt.run_nil (s : CSt) : s.run [] = s := by simp only [CSt.run, List.foldl_nil]
theorem CSt.run_cons (s : CSt) (op : Add) (rest : List Add) : s.run (op :: rest) = (s.step op).1.run rest := by
  simp only [CSt.run, List.foldl_cons]

def CSt.accepted (s : CSt) : List Add → List Add
  | [] => []
  | op :: rest => (if isAdded (s.step op).2 then [op] else []) ++ CSt.accepted (s.step op).1 rest

theorem CSt.step_near {s : CSt} {op : Add} (h1 : wadd (wadd s.byteCost s.blockCost) minCostThreshold > s.maxCost) :
    s.step op = ({ s with numSkipped := s.numSkipped + 1 }, .ok false true) := by
  unfold CSt.step; rw [if_pos h1]

theorem CSt.step_pre {s : CSt} {op : Add} (h1 : ¬ wadd (wadd s.byteCost s.blockCost) minCostThreshold > s.maxCost)
    (h2 : wadd (wadd s.byteCost s.blockCost) op.cost > s.maxCost) :
    s.step op = ({ s with numSkipped := s.numSkipped + 1 }, .ok false (skipResult (s.numSkipped + 1))) := by
  unfold CSt.step; rw [if_neg h1, if_pos h2]

theorem CSt.step_bad {s : CSt} {op : Add} (h1 : ¬ wadd (wadd s.byteCost s.blockCost) minCostThreshold > s.maxCost)
    (h2 : ¬ wadd (wadd s.byteCost s.blockCost) op.cost > s.maxCost) (h3 : op.bad = true) : s.step op = (s, .err) := by
  unfold CSt.step; rw [if_neg h1, if_neg h2, if_pos h3]

theorem CSt.step_post {s : CSt} {op : Add} (h1 : ¬ wadd (wadd s.byteCost s.blockCost) minCostThreshold > s.maxCost)
    (h2 : ¬ wadd (wadd s.byteCost s.blockCost) op.cost > s.maxCost) (h3 : ¬ op.bad = true)
    (h4 : wadd (wadd (byteCostOf op.sizeAfter s.cpb) s.blockCost) op.cost > s.maxCost) :
    s.step op = ({ s with size := op.sizeRestored, byteCost := byteCostOf op.sizeRestored s.cpb, numSkipped := s.numSkipped + 1 },
                 .ok false (skipResult (s.numSkipped + 1))) := by
  unfold CSt.step; simp only []; rw [if_neg h1, if_neg h2, if_neg h3, if_pos h4]

theorem CSt.step_acc {s : CSt} {op : Add} (h1 : ¬ wadd (wadd s.byteCost s.blockCost) minCostThreshold > s.maxCost)
    (h2 : ¬ wadd (wadd s.byteCost s.blockCost) op.cost > s.maxCost) (h3 : ¬ op.bad = true)
    (h4 : ¬ wadd (wadd (byteCostOf op.sizeAfter s.cpb) s.blockCost) op.cost > s.maxCost) :
    ∃ d, s.step op = ({ s with size := op.sizeAfter, byteCost := byteCostOf op.sizeAfter s.cpb, spends := s.spends ++ op.items,
                               blockCost := wadd s.blockCost op.cost, sig := s.sig ++ op.tags }, .ok true d) := by
  unfold CSt.step; simp only []; rw [if_neg h1, if_neg h2, if_neg h3, if_neg h4]; exact ⟨_, rfl⟩

/-- the five exits, in one statement (no hypotheses): which fields an attempt can change -/
theorem CSt.step_obs (s : CSt) (op : Add) :
    (s.step op).1.spends = s.spends ++ (if isAdded (s.step op).2 then op.items else []) ∧
    (s.step op).1.sig = s.sig ++ (if isAdded (s.step op).2 then op.tags else []) ∧
    (s.step op).1.cpb = s.cpb ∧ (s.step op).1.maxCost = s.maxCost ∧
    (s.step op).1.blockCost = (if isAdded (s.step op).2 then wadd s.blockCost op.cost else s.blockCost) := by
  by_cases c1 : wadd (wadd s.byteCost s.blockCost) minCostThreshold > s.maxCost
  · rw [CSt.step_near c1]; simp [isAdded]
  · by_cases c2 : wadd (wadd s.byteCost s.blockCost) op.cost > s.maxCost
    · rw [CSt.step_pre c1 c2]; simp [isAdded]
    · by_cases c3 : op.bad = true
      · rw [CSt.step_bad c1 c2 c3]; simp [isAdded]
      · by_cases c4 : wadd (wadd (byteCostOf op.sizeAfter s.cpb) s.blockCost) op.cost > s.maxCost
        · rw [CSt.step_post c1 c2 c3 c4]; simp [isAdded]
        · obtain ⟨d, hd⟩ := CSt.step_acc c1 c2 c3 c4
          rw [hd]; simp [isAdded]

theorem CSt.run_obs (ops : List Add) : ∀ (s : CSt),
    (s.run ops).spends = s.spends ++ (s.accepted ops).flatMap Add.items ∧
    (s.run ops).sig = s.sig ++ (s.accepted ops).flatMap Add.tags ∧
    (s.run ops).cpb = s.cpb ∧ (s.run ops).maxCost = s.maxCost := by
  induction ops with
  | nil => intro s; exact ⟨by simp only [CSt.run_nil, CSt.accepted, List.flatMap_nil, List.append_nil], by simp only [CSt.run_nil, CSt.accepted, List.flatMap_nil, List.append_nil], by rw [CSt.run_nil], by rw [CSt.run_nil]⟩
  | cons op rest ih =>
    intro s
    obtain ⟨h1, h2, h3, h4, _⟩ := s.step_obs op
    obtain ⟨i1, i2, i3, i4⟩ := ih (s.step op).1
    simp only [CSt.run_cons, CSt.accepted]
    refine ⟨?_, ?_, by rw [i3, h3], by rw [i4, h4]⟩
    · rw [i1, h1]
      by_cases ha : isAdded (s.step op).2 = true
      · simp [ha]
      · simp [ha]
    · rw [i2, h2]
      by_cases ha : isAdded (s.step op).2 = true
      · simp [ha]
      · simp [ha]

/-- the byte cost mirrors the serializer: `byte_cost = (size + 2)·cost_per_byte`, within the limit -/
def CSt.Synced (s : CSt) : Prop := s.byteCost = (s.size + 2) * s.cpb ∧ s.byteCost + s.blockCost ≤ s.maxCost
/-- no attempt has reached the serializer yet: `byte_cost` is still 0 -/
def CSt.Fresh (s : CSt) : Prop := s.byteCost = 0 ∧ s.size = 3 ∧ s.blockCost = quoteCost

structure CInv (s : CSt) : Prop where
  max_lt : s.maxCost < 2 ^ 62
  floor : 5 * s.cpb + quoteCost ≤ s.maxCost
  state : s.Synced ∨ s.Fresh

theorem CInv.init {cpb maxCost : Nat} (h : Cfg 5 cpb maxCost) : CInv (CSt.init cpb maxCost) :=
  ⟨h.max_lt, h.floor, Or.inr ⟨rfl, rfl, rfl⟩⟩

theorem CInv.sum_le {s : CSt} (hi : CInv s) : s.byteCost + s.blockCost ≤ s.maxCost := by
  rcases hi.state with h | h
  · exact h.2
  · have := hi.floor; rw [h.1, h.2.2]; omega

theorem CInv.guards {s : CSt} (hi : CInv s) {op : Add} (hs : op.Small s.cpb) (hc : SerContract s op) :
    wadd (wadd s.byteCost s.blockCost) minCostThreshold = s.byteCost + s.blockCost + minCostThreshold ∧
    wadd (wadd s.byteCost s.blockCost) op.cost = s.byteCost + s.blockCost + op.cost ∧
    byteCostOf op.sizeAfter s.cpb = (op.sizeAfter + 2) * s.cpb ∧
    wadd (wadd (byteCostOf op.sizeAfter s.cpb) s.blockCost) op.cost = (op.sizeAfter + 2) * s.cpb + s.blockCost + op.cost ∧
    byteCostOf op.sizeRestored s.cpb = (s.size + 2) * s.cpb ∧
    wadd s.blockCost op.cost = s.blockCost + op.cost := by
  have h0 := hi.sum_le
  have h1 := hi.max_lt
  have h3 := hs.declared
  have h4 := hs.serBytes
  have h5 := hs.serSize
  have hW : W = 2 ^ 64 := rfl
  have hmin : minCostThreshold = 6000000 := rfl
  have hb : byteCostOf op.sizeAfter s.cpb = (op.sizeAfter + 2) * s.cpb := by
    unfold byteCostOf
    rw [wadd_exact (by omega)]; exact wmul_exact (by omega)
  have hle : (s.size + 2) * s.cpb ≤ (op.sizeAfter + 2) * s.cpb := Nat.mul_le_mul_right _ (by have := hc.size_monotone; omega)
  have hr : byteCostOf op.sizeRestored s.cpb = (s.size + 2) * s.cpb := by
    unfold byteCostOf
    rw [hc.restore_undoes, wadd_exact (by have := hc.size_monotone; omega)]; exact wmul_exact (by omega)
  refine ⟨wadd2_exact (by omega), wadd2_exact (by omega), hb, ?_, hr, wadd_exact (by omega)⟩
  rw [hb]; exact wadd2_exact (by omega)

theorem CInv.step {s : CSt} (hi : CInv s) {op : Add} (hs : op.Small s.cpb) (hc : SerContract s op) : CInv (s.step op).1 := by
  obtain ⟨g1, g2, g3, g4, g5, g6⟩ := hi.guards hs hc
  have hf := hi.floor
  by_cases c1 : wadd (wadd s.byteCost s.blockCost) minCostThreshold > s.maxCost
  · rw [CSt.step_near c1]; exact ⟨hi.max_lt, hi.floor, hi.state⟩
  · by_cases c2 : wadd (wadd s.byteCost s.blockCost) op.cost > s.maxCost
    · rw [CSt.step_pre c1 c2]; exact ⟨hi.max_lt, hi.floor, hi.state⟩
    · by_cases c3 : op.bad = true
      · rw [CSt.step_bad c1 c2 c3]; exact hi
      · by_cases c4 : wadd (wadd (byteCostOf op.sizeAfter s.cpb) s.blockCost) op.cost > s.maxCost
        · rw [CSt.step_post c1 c2 c3 c4]
          refine ⟨hi.max_lt, hi.floor, Or.inl ⟨?_, ?_⟩⟩
          · simp only; rw [g5, hc.restore_undoes]
          · simp only; rw [g5]
            rcases hi.state with h | h
            · rw [← h.1]; exact h.2
            · rw [h.2.1, h.2.2]; omega
        · obtain ⟨d, hd⟩ := CSt.step_acc c1 c2 c3 c4
          rw [hd]
          rw [g4] at c4
          refine ⟨hi.max_lt, hi.floor, Or.inl ⟨?_, ?_⟩⟩
          · simp only; rw [g3]
          · simp only; rw [g3, g6]; omega

/-- finalize in a reachable state, under the contract for the closing bytes: no panic, cost within the
limit, and (once the byte cost mirrors the serializer) at most the running estimate -/
theorem CInv.finalize {s : CSt} (hi : CInv s) {f : Nat} (hf : FinContract s f) :
    ∃ r, s.finalize f = some r ∧ r.2.2 = s.blockCost + f * s.cpb ∧ r.2.2 ≤ s.maxCost ∧ (s.Synced → r.2.2 ≤ s.cost) := by
  have h1 := hi.max_lt
  have h2 := hi.floor
  have hW : W = 2 ^ 64 := rfl
  have hle : f * s.cpb ≤ (s.size + 2) * s.cpb := Nat.mul_le_mul_right _ hf
  have hbound : s.blockCost + f * s.cpb ≤ s.maxCost := by
    rcases hi.state with h | h
    · have := h.1; have := h.2; omega
    · rw [h.2.1] at hle; rw [h.2.2]; omega
  have e : wadd s.blockCost (wmul f s.cpb) = s.blockCost + f * s.cpb := by
    rw [wmul_exact (by omega)]; exact wadd_exact (by omega)
  refine ⟨(generator s.spends, s.sig, s.blockCost + f * s.cpb), ?_, rfl, hbound, ?_⟩
  · unfold CSt.finalize; simp only [e]; rw [if_pos hbound]
  · intro hsync
    have := hsync.1; have := hsync.2
    have ec : s.cost = s.byteCost + s.blockCost := by unfold CSt.cost; exact wadd_exact (by omega)
    simp only; rw [ec]; omega

/-- the serializer contract holds at every add of the history -/
def ContractAlong (s : CSt) : List Add → Prop
  | [] => True
  | op :: rest => SerContract s op ∧ ContractAlong (s.step op).1 rest

theorem CInv.run (ops : List Add) : ∀ {s : CSt}, CInv s → AllSmall s.cpb ops → ContractAlong s ops → CInv (s.run ops) := by
  induction ops with
  | nil => intro s hi _ _; rw [CSt.run_nil]; exact hi
  | cons op rest ih =>
    intro s hi hs hc
    rw [CSt.run_cons]
    apply ih (hi.step (hs op List.mem_cons_self) hc.1)
    · intro o ho
      rw [(s.step_obs op).2.2.1]
      exact hs o (List.mem_cons_of_mem _ ho)
    · exact hc.2

/-! ## a rejected attempt and the interned builder's later behaviour -/

/-- equal in everything but `num_skipped` -/
def ISt.Same (s t : ISt) : Prop :=
  s.spends = t.spends ∧ s.sig = t.sig ∧ s.blockCost = t.blockCost ∧ s.byteCost = t.byteCost ∧ s.cpb = t.cpb ∧ s.maxCost = t.maxCost

theorem ISt.Same.refl (s : ISt) : s.Same s := ⟨rfl, rfl, rfl, rfl, rfl, rfl⟩

/-- all five exits of the interned step as one equation (no hypotheses) -/
theorem ISt.step_shape (s : ISt) (op : Add) :
    (isAdded (s.step op).2 = false ∧ (s.step op).1 = { s with numSkipped := (s.step op).1.numSkipped }) ∨
    (isAdded (s.step op).2 = true ∧
      (s.step op).1 = { s with byteCost := wadd s.byteCost (newByteCost s.cpb op.items.reverse), spends := op.items ++ s.spends,
                               blockCost := wadd s.blockCost op.cost, sig := s.sig ++ op.tags }) := by
  by_cases c1 : wadd (wadd (wadd s.byteCost s.wrapperCost) s.blockCost) minCostThreshold > s.maxCost
  · rw [ISt.step_near c1]; exact Or.inl ⟨rfl, rfl⟩
  · by_cases c2 : wadd (wadd (wadd s.byteCost s.wrapperCost) s.blockCost) op.cost > s.maxCost
    · rw [ISt.step_pre c1 c2]; exact Or.inl ⟨rfl, rfl⟩
    · by_cases c3 : op.bad = true
      · rw [ISt.step_bad c1 c2 c3]; exact Or.inl ⟨rfl, rfl⟩
      · by_cases c4 : wadd (wadd (wadd (wadd s.byteCost (newByteCost s.cpb op.items.reverse)) s.wrapperCost) s.blockCost) op.cost > s.maxCost
        · rw [ISt.step_post c1 c2 c3 c4]; exact Or.inl ⟨rfl, rfl⟩
        · obtain ⟨d, hd⟩ := ISt.step_acc c1 c2 c3 c4
          rw [hd]; exact Or.inr ⟨rfl, rfl⟩

/-- the verdict `added`, the estimate and every field but `num_skipped` do not depend on `num_skipped` -/
theorem ISt.Same.step {s t : ISt} (h : s.Same t) (op : Add) :
    (s.step op).1.Same (t.step op).1 ∧ isAdded (s.step op).2 = isAdded (t.step op).2 := by
  obtain ⟨e1, e2, e3, e4, e5, e6⟩ := h
  have hw : s.wrapperCost = t.wrapperCost := by unfold ISt.wrapperCost; rw [e5]
  by_cases c1 : wadd (wadd (wadd s.byteCost s.wrapperCost) s.blockCost) minCostThreshold > s.maxCost
  · have c1' := c1; rw [e4, hw, e3, e6] at c1'
    rw [ISt.step_near c1, ISt.step_near c1']; exact ⟨⟨e1, e2, e3, e4, e5, e6⟩, rfl⟩
  · have c1' := c1; rw [e4, hw, e3, e6] at c1'
    by_cases c2 : wadd (wadd (wadd s.byteCost s.wrapperCost) s.blockCost) op.cost > s.maxCost
    · have c2' := c2; rw [e4, hw, e3, e6] at c2'
      rw [ISt.step_pre c1 c2, ISt.step_pre c1' c2']; exact ⟨⟨e1, e2, e3, e4, e5, e6⟩, rfl⟩
    · have c2' := c2; rw [e4, hw, e3, e6] at c2'
      by_cases c3 : op.bad = true
      · rw [ISt.step_bad c1 c2 c3, ISt.step_bad c1' c2' c3]; exact ⟨⟨e1, e2, e3, e4, e5, e6⟩, rfl⟩
      · by_cases c4 : wadd (wadd (wadd (wadd s.byteCost (newByteCost s.cpb op.items.reverse)) s.wrapperCost) s.blockCost) op.cost > s.maxCost
        · have c4' := c4; rw [e4, e5, hw, e3, e6] at c4'
          rw [ISt.step_post c1 c2 c3 c4, ISt.step_post c1' c2' c3 c4']; exact ⟨⟨e1, e2, e3, e4, e5, e6⟩, rfl⟩
        · have c4' := c4; rw [e4, e5, hw, e3, e6] at c4'
          obtain ⟨d, hd⟩ := ISt.step_acc c1 c2 c3 c4
          obtain ⟨d', hd'⟩ := ISt.step_acc c1' c2' c3 c4'
          rw [hd, hd']
          exact ⟨⟨by simp only [e1], by simp only [e2], by simp only [e3], by simp only [e4, e5], e5, e6⟩, rfl⟩

theorem ISt.Same.run (ops : List Add) : ∀ {s t : ISt}, s.Same t →
    (s.run ops).Same (t.run ops) ∧ (s.accepted ops) = (t.accepted ops) := by
  induction ops with
  | nil => intro s t h; simp only [ISt.run_nil, ISt.accepted]; exact ⟨h, trivial⟩
  | cons op rest ih =>
    intro s t h
    obtain ⟨h1, h2⟩ := h.step op
    obtain ⟨i1, i2⟩ := ih h1
    simp only [ISt.run_cons, ISt.accepted]
    exact ⟨i1, by rw [h2, i2]⟩

theorem ISt.Same.finalize {s t : ISt} (h : s.Same t) : s.finalize = t.finalize ∧ s.cost = t.cost := by
  obtain ⟨e1, e2, e3, e4, e5, e6⟩ := h
  unfold ISt.finalize ISt.cost
  simp only [e1, e2, e3, e4, e5, e6]
  exact ⟨trivial, trivial⟩

theorem Mon.eval_append {M : Type} (m : Mon M) (f : Nat → M) (a b : List Nat) :
    m.eval f (a ++ b) = m.mul (m.eval f a) (m.eval f b) := by
  induction a with
  | nil => simp [Mon.eval, m.one_mul]
  | cons x a ih =>
    have : m.eval f (x :: a ++ b) = m.mul (f x) (m.eval f (a ++ b)) := rfl
    rw [this, ih, ← m.mul_assoc]; rfl

end ChiaModel.Bld
