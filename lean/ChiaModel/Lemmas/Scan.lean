import ChiaModel.Model.Generator
import ChiaModel.Lemmas.CondInv
/-
The CREATE_COIN scanner of `additions_and_removals` against `parse_args` / the condition loop:
on an accepted condition list the scanner succeeds and reports exactly the created coins of the
spend, in order, with the same hints.
-/
namespace ChiaModel.Gn
open ChiaModel ChiaModel.Cond

/-- every successful result of `x` satisfies `P` -/
def Ret {α : Type} (P : α → Prop) (x : R α) : Prop := ∀ a, x = .ok a → P a

theorem Ret.error {α : Type} {P : α → Prop} {e : Err} : Ret P (.error e : R α) := by intro a h; cases h
theorem Ret.ok {α : Type} {P : α → Prop} {a : α} (h : P a) : Ret P (.ok a : R α) := by
  intro b hb; injection hb with hb; subst hb; exact h
theorem Ret.pure {α : Type} {P : α → Prop} {a : α} (h : P a) : Ret P (pure a : R α) := Ret.ok h
theorem Ret.bind {α β : Type} {P : α → Prop} (x : R β) (f : β → R α) (h : ∀ b, Ret P (f b)) : Ret P (x >>= f) := by
  intro a ha
  obtain ⟨b, _, hb⟩ := bind_ok ha
  exact h b a hb
theorem Ret.ite {α : Type} {P : α → Prop} {c : Prop} [Decidable c] {a b : R α} (h1 : c → Ret P a) (h2 : ¬c → Ret P b) :
    Ret P (if c then a else b) := by
  by_cases hc : c
  · rw [if_pos hc]; exact h1 hc
  · rw [if_neg hc]; exact h2 hc

def isCC : Cond → Bool
  | .createCoin _ _ _ => true
  | _ => false

/-- only the CREATE_COIN opcode parses to a `createCoin` condition -/
theorem parseArgs_not_createCoin (args : Sexp) (op flags : Nat) (hop : op ≠ Gen.opCreateCoin) :
    Ret (fun c => isCC c = false) (parseArgs args op flags) := by
  unfold parseArgs
  repeat' first
    | exact Ret.error
    | exact absurd ‹op = Gen.opCreateCoin› hop
    | (refine Ret.pure ?_; rfl)
    | (refine Ret.ok ?_; rfl)
    | refine Ret.bind _ _ (fun _ => ?_)
    | refine Ret.ite (fun _ => ?_) (fun _ => ?_)
    | split

/-- the scanner's hint rule: the first memo, if it is a non-empty atom of at most 32 bytes -/
def scanHint : Sexp → Option Bytes
  | .pair (.pair (.atom hb) _) _ => if hb.length ≤ 32 ∧ hb.length > 0 then some hb else none
  | _ => none

/-- what an accepted CREATE_COIN looks like, and that `parse_args` uses the scanner's hint rule -/
theorem parseArgs_createCoin {args : Sexp} {flags : Nat} {cva : Cond}
    (h : parseArgs args Gen.opCreateCoin flags = .ok cva) :
    ∃ ph ab v hintS, args = .pair (.atom ph) (.pair (.atom ab) hintS) ∧ ph.length = 32 ∧ sanitizeUint ab 8 = .ok v ∧
      cva = .createCoin ph v (scanHint hintS) := by
  unfold parseArgs at h
  rw [if_neg (by decide), if_pos rfl] at h
  obtain ⟨x1, h1, h⟩ := bind_ok h
  obtain ⟨ph, h2, h⟩ := bind_ok h
  obtain ⟨c2, h3, h⟩ := bind_ok h
  obtain ⟨node, h4, h⟩ := bind_ok h
  obtain ⟨b, h5, h⟩ := bind_ok h
  have key : ∃ amount, sanitizeUint b 8 = .ok amount ∧ ∃ c3, rest c2 = .ok c3 ∧
      (match c3 with
        | .pair params r => do
          maybeCheckArgsTerminator c3 flags
          match params with
            | .pair (.atom h) r =>
              if List.length h ≤ 32 then pure (Cond.createCoin ph amount (if List.isEmpty h = true then none else some h))
              else pure (Cond.createCoin ph amount none)
            | x => pure (Cond.createCoin ph amount none)
        | .atom b =>
          if strict flags = true then do
            let __r ← checkNil c3
            pure (Cond.createCoin ph amount none)
          else pure (Cond.createCoin ph amount none)) = Except.ok cva := by
    simp only at h
    split at h
    · rename_i v hv
      obtain ⟨amount, h6, h⟩ := bind_ok h
      injection h6 with h6; subst h6
      obtain ⟨c3, h7, h⟩ := bind_ok h
      exact ⟨v, hv, c3, h7, h⟩
    · obtain ⟨amount, h6, h⟩ := bind_ok h
      cases h6
  obtain ⟨amount, hs, c3, h7, hk⟩ := key
  cases args with
  | atom a => cases h1
  | pair a1 r1 =>
    injection h1 with h1; subst h1
    injection h3 with h3; subst h3
    obtain ⟨e1, l1⟩ := sanitizeHash_ok h2
    subst e1
    cases r1 with
    | atom a => cases h4
    | pair a2 r2 =>
      injection h4 with h4; subst h4
      injection h7 with h7; subst h7
      cases a2 with
      | pair x y => cases h5
      | atom ab =>
        injection h5 with h5; subst h5
        refine ⟨ph, ab, amount, r2, rfl, l1, hs, ?_⟩
        have hp : ∀ x : Cond, (pure x : R Cond) = .ok cva → cva = x := fun x hx =>
          (Except.ok.inj (hx : (Except.ok x : R Cond) = Except.ok cva)).symm
        cases r2 with
        | atom a =>
          simp only at hk
          split at hk
          · obtain ⟨_, _, hk⟩ := bind_ok hk
            rw [hp _ hk]; rfl
          · rw [hp _ hk]; rfl
        | pair params r3 =>
          simp only at hk
          obtain ⟨_, _, hk⟩ := bind_ok hk
          cases params with
          | atom a => simp only at hk; rw [hp _ hk]; rfl
          | pair q1 q2 =>
            cases q1 with
            | pair z1 z2 => simp only at hk; rw [hp _ hk]; rfl
            | atom hb =>
              simp only at hk
              simp only [scanHint]
              by_cases hl : hb.length ≤ 32
              · rw [if_pos hl] at hk
                rw [hp _ hk]
                cases hb with
                | nil => simp
                | cons x xs => simp at hl ⊢; exact hl
              · rw [if_neg hl] at hk
                rw [hp _ hk]
                rw [if_neg (by omega)]

theorem pushAggSig_createCoin (op : Nat) (sp : Spend) (x : Bytes × Bytes) : (pushAggSig op sp x).createCoin = sp.createCoin := by
  unfold pushAggSig
  repeat' split
  all_goals rfl

theorem applyCond_createCoin {env : Env} {s s' : CSt} {ph : Bytes} {v : Nat} {hint : Option Bytes}
    (h : applyCond env s (.createCoin ph v hint) = .ok s') : s'.spend.createCoin = s.spend.createCoin ++ [⟨ph, v, hint⟩] := by
  simp only [applyCond] at h
  split at h
  · cases h
  · injection h with h; subst h; rfl

/-- every condition other than CREATE_COIN leaves the created-coin list alone -/
theorem applyCond_not_cc {env : Env} {s s' : CSt} {cva : Cond} (hcc : isCC cva = false)
    (h : applyCond env s cva = .ok s') : s'.spend.createCoin = s.spend.createCoin := by
  cases cva <;> simp only [applyCond] at h
  case createCoin => simp [isCC] at hcc
  case aggSig op pk msg =>
    split at h
    · split at h
      · cases h
      · obtain ⟨k, _, h⟩ := bind_ok h
        injection h with h; subst h
        rfl
    · obtain ⟨k, _, h⟩ := bind_ok h
      injection h with h; subst h
      exact pushAggSig_createCoin _ _ _
  all_goals first
    | (injection h with h; subst h; simp; done)
    | (split at h <;> first | (injection h with h; subst h; simp; done) | (cases h; done))
    | (obtain ⟨s1, hd, h⟩ := bind_ok h; obtain ⟨d1, d2, d3⟩ := decrement_frame _ _ _ hd; injection h with h; subst h; simp [d2]; done)

/-- `parseOpcode` yields CREATE_COIN exactly for the one-byte atom `51` -/
theorem parseOpcode_cc (opn : Sexp) : parseOpcode opn = some Gen.opCreateCoin ↔ opn = .atom [51] := by
  constructor
  · intro h
    cases opn with
    | pair a b => cases h
    | atom b =>
      match b with
      | [] => cases h
      | [b0] =>
        simp only [parseOpcode] at h
        split at h
        · injection h with h; rw [h]; rfl
        · cases h
      | [b0, b1] =>
        simp only [parseOpcode] at h
        split at h
        · cases h
        · rename_i hne
          injection h with h
          have : Gen.opCreateCoin = 51 := rfl
          rw [this] at h
          have : b0 * 256 ≥ 256 := by
            cases b0 with
            | zero => exact absurd rfl hne
            | succ n => omega
          omega
      | _ :: _ :: _ :: _ => cases h
  · intro h; subst h; decide

/-- one accepted condition, seen by the scanner -/
theorem stepCond_scan {env : Env} {s : CSt} {m : Nat} {c : Sexp} {s' : CSt} {m' : Nat}
    (h : stepCond env s m c = .ok (s', m')) :
    ∃ opn args, c = .pair opn args ∧
      ((opn = .atom [51] ∧ ∃ ph ab v hintS, args = .pair (.atom ph) (.pair (.atom ab) hintS) ∧ ph.length = 32 ∧
          sanitizeUint ab 8 = .ok v ∧ s'.spend.createCoin = s.spend.createCoin ++ [⟨ph, v, scanHint hintS⟩]) ∨
       (opn ≠ .atom [51] ∧ s'.spend.createCoin = s.spend.createCoin)) := by
  unfold stepCond at h
  obtain ⟨opn, hf, h⟩ := bind_ok h
  cases c with
  | atom b => cases hf
  | pair c1 args =>
    injection hf with hf; subst hf
    refine ⟨c1, args, rfl, ?_⟩
    cases ho : parseOpcode c1 with
    | none =>
      rw [ho] at h; simp only at h
      right
      refine ⟨fun hc => (by rw [(parseOpcode_cc c1).mpr hc] at ho; cases ho), ?_⟩
      split at h
      · cases h
      · split at h
        · rw [(addCost_ok h).1]; rfl
        · injection h with h; injection h with h1; rw [← h1]
    | some op =>
      rw [ho] at h; simp only at h
      obtain ⟨⟨s2, m2⟩, ha, h⟩ := bind_ok h
      obtain ⟨⟨s3, extra⟩, hpc, h⟩ := bind_ok h
      obtain ⟨args', cva, hr, hpa, happ, _⟩ := pureCond_ok hpc
      injection hr with hr; subst hr
      have hs2 : s2 = bump s (preCharge env.flags op) := (addCost_ok ha).1
      have hs' : s' = bump s3 extra := (addCost_ok h).1
      by_cases hop : op = Gen.opCreateCoin
      · left
        subst hop
        refine ⟨(parseOpcode_cc c1).mp ho, ?_⟩
        obtain ⟨ph, ab, v, hintS, e1, e2, e3, e4⟩ := parseArgs_createCoin hpa
        subst e4
        refine ⟨ph, ab, v, hintS, e1, e2, e3, ?_⟩
        rw [hs']
        show s3.spend.createCoin = _
        rw [applyCond_createCoin happ, hs2]; rfl
      · right
        refine ⟨fun hc => hop ?_, ?_⟩
        · have := (parseOpcode_cc c1).mpr hc
          rw [ho] at this; injection this
        · rw [hs']
          show s3.spend.createCoin = _
          rw [applyCond_not_cc (parseArgs_not_createCoin _ _ _ hop cva hpa) happ, hs2]; rfl

/-- the additions a spend reports: its created coins with its coin id as parent -/
def ncAdd (id : Bytes) (nc : NewCoin) : (Bytes × Bytes × Nat) × Option Bytes := ((id, nc.ph, nc.amount), nc.hint)

/-- **The scanner reads what the condition loop accepted.**  On a condition list accepted by
`parse_conditions` the CREATE_COIN scanner succeeds, and it reports exactly the coins the loop appended
to the spend's `create_coin` list — same order, same puzzle hashes, amounts and hints. -/
theorem condLoop_scan (env : Env) (id : Bytes) : ∀ (t : Sexp) (s : CSt) (m : Nat) (s' : CSt) (m' : Nat),
    condLoop env t s m = .ok (s', m') →
    ∃ ncs, s'.spend.createCoin = s.spend.createCoin ++ ncs ∧ scanCreateCoins id t = some (ncs.map (ncAdd id)) := by
  intro t
  induction t with
  | atom b =>
    intro s m s' m' h
    cases b with
    | nil =>
      simp only [condLoop] at h
      injection h with h; injection h with h1; subst h1
      exact ⟨[], by simp, rfl⟩
    | cons x xs => simp [condLoop] at h
  | pair c nxt _ ih =>
    intro s m s' m' h
    simp only [condLoop] at h
    obtain ⟨⟨s1, m1⟩, hs, h⟩ := bind_ok h
    obtain ⟨ncs, e1, e2⟩ := ih s1 m1 s' m' h
    obtain ⟨opn, args, rfl, hcase⟩ := stepCond_scan hs
    rcases hcase with ⟨rfl, ph, ab, v, hintS, rfl, hl, hv, hcc⟩ | ⟨hne, hcc⟩
    · refine ⟨⟨ph, v, scanHint hintS⟩ :: ncs, by rw [e1, hcc]; simp, ?_⟩
      simp only [scanCreateCoins, ne_eq, not_true_eq_false, if_false]
      rw [if_neg (by omega), hv]
      simp only [e2, Option.map_some, List.map_cons]
      rfl
    · refine ⟨ncs, by rw [e1, hcc], ?_⟩
      simp only [scanCreateCoins]
      rw [if_pos hne]; exact e2

end ChiaModel.Gn
