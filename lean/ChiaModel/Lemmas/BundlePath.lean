import ChiaModel.Lemmas.GenPaths
import ChiaModel.Lemmas.Visitor
/-
The spend loop of the mempool path (`bundleLoop`, mempool visitor) against the native block loop
(`nativeLoop`, empty visitor) on the spend list a generator built from the same coin spends lists:
same verdict (same error), same parser state, same remaining budget, and bundles that differ only in
the visitor's flag bits of the spends and a constant offset of the execution cost.
-/
namespace ChiaModel.Gn
open ChiaModel ChiaModel.Cond

/-- one element of the generator's spend list: `(parent puzzle amount solution)` -/
def item (s : CoinSpendM) : Sexp := Sexp.ofList [.atom s.parent, s.puzzle, .atom (canonNat s.amount), s.solution]

theorem buildGenerator_eq (css : List CoinSpendM) :
    buildGenerator css = .pair (.atom [1]) (.pair (Sexp.ofList (css.map item).reverse) Sexp.nil) := rfl

/-- `BlkRel k n b`: the block-path bundle `n` is the mempool-path bundle `b` with every spend's flags
masked to HAS_RELATIVE_CONDITION (no visitor) and `k` more execution cost; every other field equal. -/
def BlkRel (k : Nat) (n b : Bundle) : Prop :=
  n.spends = b.spends.map blockSpend ∧ n = { b with spends := n.spends, executionCost := b.executionCost + k }

/-- two loop results agree: same error, or same parser state and budget and `BlkRel` bundles -/
def LoopRel (k : Nat) (x y : R ((Bundle × PState) × Nat)) : Prop :=
  match x, y with
  | .ok ((a, s), m), .ok ((b, s'), m') => s = s' ∧ m = m' ∧ BlkRel k a b
  | .error e, .error e' => e = e'
  | _, _ => False

theorem blkRel_addExec {k : Nat} {n b : Bundle} (h : BlkRel k n b) (c : Nat) :
    BlkRel k { n with executionCost := n.executionCost + c } { b with executionCost := b.executionCost + c } := by
  obtain ⟨h1, h2⟩ := h
  refine ⟨h1, ?_⟩
  rw [h2]
  simp only [Bundle.mk.injEq, true_and, and_true]
  omega

/-- one spend: the empty-visitor run on the block-side bundle mirrors the mempool-visitor run -/
theorem processSingleSpend_blkRel (env : Env) {k : Nat} {retN retB : Bundle} (st : PState)
    (parent ph amount conds : Sexp) (c m : Nat) (h : BlkRel k retN retB) :
    LoopRel k (processSingleSpend (blockEnv env) retN st parent ph amount conds c m)
      (processSingleSpend env retB st parent ph amount conds c m) := by
  obtain ⟨h1, h2⟩ := h
  have hlen : retN.spends.length = retB.spends.length := by rw [h1, List.length_map]
  rw [h2, processSingleSpend_core, processSingleSpend_core]
  have := processCore_blk env retB st parent ph amount conds c m (retB.executionCost + k) retN.spends hlen
  rw [this]
  cases hc : processCore env retB st parent ph amount conds c m with
  | error e => simp only [liftSt, Except.map, LoopRel]
  | ok q =>
    obtain ⟨s, m1⟩ := q
    have hs := processCore_spends hc
    have he := processCore_exec hc
    simp only [liftSt, Except.map, LoopRel, finishSpend, true_and]
    refine ⟨?_, ?_⟩
    · simp only [hs, h1, List.map_append, List.map_cons, List.map_nil, postSpend_blockSpend]
    · simp only [he]

theorem extract5_item (cs : CoinSpendM) :
    extract5 (item cs) = some (.atom cs.parent, cs.puzzle, .atom (canonNat cs.amount), cs.solution, Sexp.nil) := rfl

theorem ofList_cons (a : Sexp) (l : List Sexp) : Sexp.ofList (a :: l) = .pair a (Sexp.ofList l) := rfl

/-- **Mempool loop vs. native loop.**  On the spend list of a generator listing the coin spends `css`
in order, with matching declared puzzle hashes and enough spend allowance, the native loop (empty
visitor) and the bundle loop (mempool visitor) give the same error, or the same parser state and
remaining budget and `BlkRel` bundles. -/
theorem nativeLoop_bundleLoop (env : Env) (puz : Nat → RunRes) (k : Nat) : ∀ (css : List CoinSpendM) (i : Nat)
    (retN retB : Bundle) (st : PState) (n m : Nat),
    (∀ s ∈ css, s.puzzleHash = Sexp.treeHash s.puzzle) → css.length ≤ n → BlkRel k retN retB →
    LoopRel k (nativeLoop (blockEnv env) puz (Sexp.ofList (css.map item)) i retN st n m)
      (bundleLoop env puz css i retB st m) := by
  intro css
  induction css with
  | nil =>
    intro i retN retB st n m _ _ hrel
    simp only [List.map_nil, Sexp.ofList, List.foldr_nil, Sexp.nil, nativeLoop, bundleLoop, LoopRel, true_and]
    exact hrel
  | cons cs rest ih =>
    intro i retN retB st n m hph hn hrel
    have hn0 : n ≠ 0 := by simp only [List.length_cons] at hn; omega
    simp only [List.map_cons, ofList_cons, nativeLoop, bundleLoop]
    rw [if_neg hn0, extract5_item]
    simp only
    cases hrun : runWithLimit (puz i) m with
    | error e => simp only [LoopRel]
    | ok q =>
      obtain ⟨c, conds⟩ := q
      simp only
      cases hsub : subtractCost m c with
      | error e => simp only [LoopRel]
      | ok m1 =>
        simp only
        rw [if_neg (by simp only [ne_eq, Decidable.not_not]; exact hph cs (List.mem_cons_self ..))]
        have hstep := processSingleSpend_blkRel env st (.atom cs.parent) (.atom (Sexp.treeHash cs.puzzle))
          (.atom (canonNat cs.amount)) conds c m1 (blkRel_addExec hrel c)
        cases hN : processSingleSpend (blockEnv env) { retN with executionCost := retN.executionCost + c } st (.atom cs.parent)
            (.atom (Sexp.treeHash cs.puzzle)) (.atom (canonNat cs.amount)) conds c m1 with
        | error eN =>
          rw [hN] at hstep
          cases hB : processSingleSpend env { retB with executionCost := retB.executionCost + c } st (.atom cs.parent)
              (.atom (Sexp.treeHash cs.puzzle)) (.atom (canonNat cs.amount)) conds c m1 with
          | error eB => rw [hB] at hstep; simp only [LoopRel] at hstep ⊢; exact hstep
          | ok qB => rw [hB] at hstep; simp only [LoopRel] at hstep
        | ok qN =>
          obtain ⟨⟨rN, sN⟩, mN⟩ := qN
          rw [hN] at hstep
          cases hB : processSingleSpend env { retB with executionCost := retB.executionCost + c } st (.atom cs.parent)
              (.atom (Sexp.treeHash cs.puzzle)) (.atom (canonNat cs.amount)) conds c m1 with
          | error eB => rw [hB] at hstep; simp only [LoopRel] at hstep
          | ok qB =>
            obtain ⟨⟨rB, sB⟩, mB⟩ := qB
            rw [hB] at hstep
            simp only [LoopRel] at hstep
            obtain ⟨e1, e2, hrel1⟩ := hstep
            subst e1; subst e2
            simp only
            exact ih (i + 1) rN rB sN (n - 1) mN (fun s hs => hph s (List.mem_cons_of_mem _ hs))
              (by simp only [List.length_cons] at hn; omega) hrel1

/-! ## after the loops -/

/-- `isEphemeral` reads only parent id, puzzle hash, amount and created coins of the spends -/
theorem isEphemeral_map (st : PState) (f : Spend → Spend)
    (hf : ∀ sp, (f sp).parentId = sp.parentId ∧ (f sp).puzzleHash = sp.puzzleHash ∧ (f sp).coinAmount = sp.coinAmount ∧
      (f sp).createCoin = sp.createCoin) (sps : List Spend) (i : Nat) :
    isEphemeral st (sps.map f) i = isEphemeral st sps i := by
  unfold isEphemeral
  simp only [List.getElem?_map]
  cases sps[i]? with
  | none => rfl
  | some sp =>
    simp only [Option.map_some, (hf sp).1]
    cases st.spentCoins.idxOf? sp.parentId with
    | none => rfl
    | some pidx =>
      simp only
      cases sps[pidx]? with
      | none => rfl
      | some par => simp only [Option.map_some, (hf par).2.2.2, (hf sp).2.1, (hf sp).2.2.1]

theorem validOk_congr {a b : Bundle} (st : PState) (he : ∀ i, isEphemeral st a.spends i = isEphemeral st b.spends i)
    (h1 : a.removalAmount = b.removalAmount) (h2 : a.additionAmount = b.additionAmount) (h3 : a.reserveFee = b.reserveFee)
    (h4 : a.beforeHeightAbsolute = b.beforeHeightAbsolute) (h5 : a.heightAbsolute = b.heightAbsolute)
    (h6 : a.beforeSecondsAbsolute = b.beforeSecondsAbsolute) (h7 : a.secondsAbsolute = b.secondsAbsolute) :
    validOk a st = validOk b st := by
  simp only [validOk, he, h1, h2, h3, h4, h5, h6, h7]

/-- `postProcess` (either visitor) only rewrites eligibility bits of the spends' flags -/
theorem postProcess_blk (env : Env) (ret : Bundle) (st : PState) :
    (postProcess env ret st).spends.map blockSpend = ret.spends.map blockSpend ∧
    postProcess env ret st = { ret with spends := (postProcess env ret st).spends } := by
  unfold postProcess
  split
  · exact ⟨rfl, rfl⟩
  · refine ⟨?_, rfl⟩
    simp only [List.map_map]
    apply List.map_congr_left
    intro sp _
    simp only [Function.comp, blockSpend]
    by_cases h1 : st.assertConcurrentSpend.contains sp.coinId = true <;> simp only [h1, if_true, if_false, Bool.false_eq_true]
    · split
      · simp only [clearFlag_ff_and2]
      · split <;> simp only [clearFlag_ff_and2]
    · split
      · rfl
      · split <;> simp only [clearFlag_ff_and2]

theorem blockSpend_fields (sp : Spend) : (blockSpend sp).parentId = sp.parentId ∧ (blockSpend sp).puzzleHash = sp.puzzleHash ∧
    (blockSpend sp).coinAmount = sp.coinAmount ∧ (blockSpend sp).createCoin = sp.createCoin := ⟨rfl, rfl, rfl, rfl⟩

/-- deferred validation gives the same verdict on the block-side bundle and on the post-processed
mempool-side bundle -/
theorem validOk_blkRel (env : Env) {k : Nat} {retN retB : Bundle} (h : BlkRel k retN retB) (st : PState) :
    validOk retN st = validOk (postProcess env retB st) st := by
  obtain ⟨h1, h2⟩ := h
  obtain ⟨p1, p2⟩ := postProcess_blk env retB st
  have he : ∀ i, isEphemeral st retN.spends i = isEphemeral st (postProcess env retB st).spends i := by
    intro i
    rw [h1, isEphemeral_map st blockSpend blockSpend_fields, ← isEphemeral_map st blockSpend blockSpend_fields (postProcess env retB st).spends,
      p1, isEphemeral_map st blockSpend blockSpend_fields]
  rw [p2, h2]
  exact validOk_congr st he rfl rfl rfl rfl rfl rfl rfl

/-- the bundle loop only counts down -/
theorem bundleLoop_le (env : Env) (puz : Nat → RunRes) : ∀ (css : List CoinSpendM) (i : Nat) (ret : Bundle) (st : PState) (m : Nat)
    (ret' : Bundle) (st' : PState) (m' : Nat), bundleLoop env puz css i ret st m = .ok ((ret', st'), m') → m' ≤ m := by
  intro css
  induction css with
  | nil =>
    intro i ret st m ret' st' m' h
    simp only [bundleLoop] at h
    injection h with h; injection h with _ h; omega
  | cons cs rest ih =>
    intro i ret st m ret' st' m' h
    simp only [bundleLoop] at h
    cases hrun : runWithLimit (puz i) m with
    | error e => rw [hrun] at h; cases h
    | ok q =>
      obtain ⟨c, conds⟩ := q
      rw [hrun] at h; simp only at h
      cases hsub : subtractCost m c with
      | error e => rw [hsub] at h; cases h
      | ok m1 =>
        rw [hsub] at h; simp only at h
        split at h
        · cases h
        · cases hp : processSingleSpend env { ret with executionCost := ret.executionCost + c } st (.atom cs.parent)
              (.atom (Sexp.treeHash cs.puzzle)) (.atom (canonNat cs.amount)) conds c m1 with
          | error e => rw [hp] at h; cases h
          | ok q2 =>
            obtain ⟨⟨r1, s1⟩, m2⟩ := q2
            rw [hp] at h; simp only at h
            have := ih _ _ _ _ _ _ _ h
            obtain ⟨d1, _, _⟩ := shift_processSingleSpend env _ st _ _ _ conds c m1 (r1, s1) m2 hp
            obtain ⟨_, d3⟩ := subtractCost_ok' hsub
            omega

/-- with more list elements than spend allowance the native loop never accepts -/
theorem nativeLoop_too_long (env : Env) (puz : Nat → RunRes) : ∀ (l : List Sexp) (i : Nat) (ret : Bundle) (st : PState) (n m : Nat)
    (r : (Bundle × PState) × Nat), n < l.length → nativeLoop env puz (Sexp.ofList l) i ret st n m ≠ .ok r := by
  intro l
  induction l with
  | nil => intro i ret st n m r h; simp at h
  | cons a t ih =>
    intro i ret st n m r hn h
    simp only [ofList_cons, nativeLoop] at h
    split at h
    · cases h
    · rename_i hn0
      cases h5 : extract5 a with
      | none => rw [h5] at h; cases h
      | some q5 =>
        obtain ⟨pa, pu, am, so, rs⟩ := q5
        rw [h5] at h; simp only at h
        cases hrun : runWithLimit (puz i) m with
        | error e => rw [hrun] at h; cases h
        | ok q =>
          obtain ⟨c, conds⟩ := q
          rw [hrun] at h; simp only at h
          cases hsub : subtractCost m c with
          | error e => rw [hsub] at h; cases h
          | ok m1 =>
            rw [hsub] at h; simp only at h
            cases hp : processSingleSpend env { ret with executionCost := ret.executionCost + c } st pa
                (.atom (Sexp.treeHash pu)) am conds c m1 with
            | error e => rw [hp] at h; cases h
            | ok q2 =>
              obtain ⟨⟨r1, s1⟩, m2⟩ := q2
              rw [hp] at h; simp only at h
              exact ih _ _ _ _ _ _ (by simp only [List.length_cons] at hn; omega) h

theorem allExtract3_items (css : List CoinSpendM) : allExtract3 (Sexp.ofList (css.map item)) = true := by
  induction css with
  | nil => rfl
  | cons cs rest ih =>
    simp only [List.map_cons, ofList_cons, allExtract3, ih, Bool.and_true]
    rfl

end ChiaModel.Gn
