import ChiaModel.Lemmas.StreamableBase
/-!
Specifications (`Codec`, `Total`, `Agree`) and the lemmas for the leaf decoders and the combinators.
-/
namespace ChiaModel.Streamable
open ChiaModel

/-- round trip + canonicity of one decoder/encoder/well-formedness triple -/
structure Codec (d : Dec) (e : Enc) (w : Wf) : Prop where
  rt : ∀ v, w v = true → ∃ bs, e v = some bs ∧ ∀ r, (d (bs ++ r)).out = .ok (v, r)
  cn : ∀ b v r, isBytes b → (d b).out = .ok (v, r) → ∃ p, e v = some p ∧ p ++ r = b ∧ w v = true

/-- never panics; what is left over is a suffix of the input -/
structure Total (d : Dec) : Prop where
  np : ∀ b s, (d b).out ≠ .panic s
  pre : ∀ b v r, (d b).out = .ok (v, r) → ∃ p, b = p ++ r

/-- the second decoder accepts whatever the first accepts, with the same result -/
def Agree (du dt : Dec) : Prop := ∀ b x, (du b).out = .ok x → (dt b).out = .ok x

theorem Agree.refl (d : Dec) : Agree d d := fun _ _ h => h

theorem u32Max_eq : u32Max = 256 ^ 4 := by decide

/-! ### uint -/

theorem decUint_ok {n : Nat} {b r : Bytes} {v : V} :
    (decUint n b).out = .ok (v, r) ↔ ∃ c, b = c ++ r ∧ c.length = n ∧ v = .n (beVal c) := by
  unfold decUint
  rw [Res.bind_ok]
  constructor
  · rintro ⟨⟨x, r'⟩, h1, h2⟩
    simp only [Res.pure_out] at h2
    injection h2 with h2; injection h2 with e1 e2
    subst e1; subst e2
    obtain ⟨c, hb, hl, rfl⟩ := readUint_ok.mp h1
    exact ⟨c, hb, hl, rfl⟩
  · rintro ⟨c, hb, hl, rfl⟩
    exact ⟨(beVal c, r), readUint_ok.mpr ⟨c, hb, hl, rfl⟩, rfl⟩

theorem decUint_np (n : Nat) (b : Bytes) (s : String) : (decUint n b).out ≠ .panic s := by
  unfold decUint
  rw [Ne, Res.bind_panic]
  rintro (h | ⟨a, _, h⟩)
  · exact readUint_no_panic _ _ _ h
  · simp at h

theorem wfUint_iff {n : Nat} {v : V} : wfUint n v = true ↔ ∃ x, v = .n x ∧ x < 256 ^ n := by
  cases v <;> simp [wfUint]

theorem codec_uint (n : Nat) : Codec (decUint n) (encUint n) (wfUint n) where
  rt := by
    intro v hv
    obtain ⟨x, rfl, hx⟩ := wfUint_iff.mp hv
    refine ⟨be n x, by simp [encUint, hx], fun r => ?_⟩
    exact decUint_ok.mpr ⟨be n x, rfl, be_length n x, by rw [beVal_be n x hx]⟩
  cn := by
    intro b v r hb h
    obtain ⟨c, rfl, hl, rfl⟩ := decUint_ok.mp h
    have hc : isBytes c := (isBytes_append.mp hb).1
    have hlt : beVal c < 256 ^ n := hl ▸ beVal_lt c hc
    refine ⟨c, ?_, rfl, wfUint_iff.mpr ⟨_, rfl, hlt⟩⟩
    simp only [encUint, hlt, if_true]
    rw [← hl, be_beVal c hc]

theorem total_uint (n : Nat) : Total (decUint n) where
  np := decUint_np n
  pre := by
    intro b v r h
    obtain ⟨c, rfl, _, _⟩ := decUint_ok.mp h
    exact ⟨c, rfl⟩

/-! ### sint -/

theorem decSint_ok {n : Nat} {b r : Bytes} {v : V} :
    (decSint n b).out = .ok (v, r) ↔ ∃ c, b = c ++ r ∧ c.length = n ∧ v = .i (toSigned n (beVal c)) := by
  unfold decSint
  rw [Res.bind_ok]
  constructor
  · rintro ⟨⟨x, r'⟩, h1, h2⟩
    simp only [Res.pure_out] at h2
    injection h2 with h2; injection h2 with e1 e2
    subst e1; subst e2
    obtain ⟨c, hb, hl, rfl⟩ := readUint_ok.mp h1
    exact ⟨c, hb, hl, rfl⟩
  · rintro ⟨c, hb, hl, rfl⟩
    exact ⟨(beVal c, r), readUint_ok.mpr ⟨c, hb, hl, rfl⟩, rfl⟩

theorem decSint_np (n : Nat) (b : Bytes) (s : String) : (decSint n b).out ≠ .panic s := by
  unfold decSint
  rw [Ne, Res.bind_panic]
  rintro (h | ⟨a, _, h⟩)
  · exact readUint_no_panic _ _ _ h
  · simp at h

theorem wfSint_iff {n : Nat} {v : V} : wfSint n v = true ↔ ∃ x, v = .i x ∧ sintOk n x = true := by
  cases v <;> simp [wfSint]

theorem signed_rt (P : Nat) (x : Int) (u : Nat) (h1 : -(P : Int) ≤ 2 * x) (h2 : 2 * x < (P : Int))
    (hu : u = if 0 ≤ x then x.toNat else (x + (P : Int)).toNat) :
    u < P ∧ (if 2 * u < P then (u : Int) else (u : Int) - (P : Int)) = x := by
  by_cases hx : 0 ≤ x
  · rw [if_pos hx] at hu
    have : (u : Int) = x := by rw [hu]; omega
    constructor
    · omega
    · have h3 : 2 * u < P := by omega
      rw [if_pos h3]; exact this
  · rw [if_neg hx] at hu
    have : (u : Int) = x + P := by rw [hu]; omega
    constructor
    · omega
    · have h3 : ¬ 2 * u < P := by omega
      rw [if_neg h3]; omega

theorem signed_cn (P u : Nat) (x : Int) (hu : u < P)
    (hx : x = if 2 * u < P then (u : Int) else (u : Int) - (P : Int)) :
    -(P : Int) ≤ 2 * x ∧ 2 * x < (P : Int) ∧ (if 0 ≤ x then x.toNat else (x + (P : Int)).toNat) = u := by
  by_cases h : 2 * u < P
  · rw [if_pos h] at hx
    rw [hx]
    refine ⟨by omega, by omega, ?_⟩
    rw [if_pos (by omega)]; omega
  · rw [if_neg h] at hx
    rw [hx]
    refine ⟨by omega, by omega, ?_⟩
    rw [if_neg (by omega)]; omega

theorem codec_sint (n : Nat) : Codec (decSint n) (encSint n) (wfSint n) where
  rt := by
    intro v hv
    obtain ⟨x, rfl, hx⟩ := wfSint_iff.mp hv
    have hx' := hx
    simp only [sintOk, Bool.and_eq_true, decide_eq_true_eq] at hx'
    obtain ⟨hu, hback⟩ := signed_rt (256 ^ n) x (ofSigned n x) hx'.1 hx'.2 rfl
    refine ⟨be n (ofSigned n x), by simp [encSint, hx], fun r => ?_⟩
    refine decSint_ok.mpr ⟨be n (ofSigned n x), rfl, be_length _ _, ?_⟩
    have : beVal (be n (ofSigned n x)) = ofSigned n x := beVal_be n _ hu
    rw [this]
    congr 1
    exact hback.symm
  cn := by
    intro b v r hb h
    obtain ⟨c, rfl, hl, rfl⟩ := decSint_ok.mp h
    have hc : isBytes c := (isBytes_append.mp hb).1
    have hlt : beVal c < 256 ^ n := hl ▸ beVal_lt c hc
    obtain ⟨h1, h2, h3⟩ := signed_cn (256 ^ n) (beVal c) (toSigned n (beVal c)) hlt rfl
    have hok : sintOk n (toSigned n (beVal c)) = true := by
      simp only [sintOk, Bool.and_eq_true, decide_eq_true_eq]
      exact ⟨h1, h2⟩
    refine ⟨c, ?_, rfl, wfSint_iff.mpr ⟨_, rfl, hok⟩⟩
    simp only [encSint, hok, if_true]
    have : ofSigned n (toSigned n (beVal c)) = beVal c := h3
    rw [this, ← hl, be_beVal c hc]

theorem total_sint (n : Nat) : Total (decSint n) where
  np := decSint_np n
  pre := by
    intro b v r h
    obtain ⟨c, rfl, _, _⟩ := decSint_ok.mp h
    exact ⟨c, rfl⟩

/-! ### bool, unit -/

theorem decBool_ok {b r : Bytes} {v : V} :
    (decBool b).out = .ok (v, r) ↔ (b = 0 :: r ∧ v = .b false) ∨ (b = 1 :: r ∧ v = .b true) := by
  unfold decBool
  rw [Res.bind_ok]
  constructor
  · rintro ⟨⟨x, r'⟩, h1, h2⟩
    have hb := readByte_ok.mp h1
    subst hb
    by_cases h0 : x = 0
    · subst h0
      simp only [if_true, Res.pure_out] at h2
      injection h2 with h2; injection h2 with e1 e2; subst e1; subst e2
      exact Or.inl ⟨rfl, rfl⟩
    · by_cases h1' : x = 1
      · subst h1'
        simp only [if_neg h0, if_true, Res.pure_out] at h2
        injection h2 with h2; injection h2 with e1 e2; subst e1; subst e2
        exact Or.inr ⟨rfl, rfl⟩
      · simp [if_neg h0, if_neg h1'] at h2
  · rintro (⟨rfl, rfl⟩ | ⟨rfl, rfl⟩)
    · exact ⟨(0, r), readByte_ok.mpr rfl, by simp⟩
    · exact ⟨(1, r), readByte_ok.mpr rfl, by simp⟩

theorem decBool_np (b : Bytes) (s : String) : (decBool b).out ≠ .panic s := by
  unfold decBool
  rw [Ne, Res.bind_panic]
  rintro (h | ⟨a, _, h⟩)
  · exact readByte_no_panic _ _ _ h
  · split at h
    · simp at h
    · split at h <;> simp at h

theorem codec_bool : Codec decBool encBool wfBool where
  rt := by
    intro v hv
    cases v <;> simp [wfBool] at hv
    rename_i x
    cases x
    · exact ⟨[0], rfl, fun r => decBool_ok.mpr (Or.inl ⟨rfl, rfl⟩)⟩
    · exact ⟨[1], rfl, fun r => decBool_ok.mpr (Or.inr ⟨rfl, rfl⟩)⟩
  cn := by
    intro b v r _ h
    rcases decBool_ok.mp h with ⟨rfl, rfl⟩ | ⟨rfl, rfl⟩
    · exact ⟨[0], rfl, rfl, rfl⟩
    · exact ⟨[1], rfl, rfl, rfl⟩

theorem total_bool : Total decBool where
  np := decBool_np
  pre := by
    intro b v r h
    rcases decBool_ok.mp h with ⟨rfl, _⟩ | ⟨rfl, _⟩
    · exact ⟨[0], rfl⟩
    · exact ⟨[1], rfl⟩

theorem codec_unit : Codec decUnit encUnit wfUnit where
  rt := by
    intro v hv
    cases v <;> simp [wfUnit] at hv
    exact ⟨[], rfl, fun r => rfl⟩
  cn := by
    intro b v r _ h
    simp only [decUnit, Res.pure_out] at h
    injection h with h; injection h with e1 e2; subst e1; subst e2
    exact ⟨[], rfl, rfl, rfl⟩

theorem total_unit : Total decUnit where
  np := by intro b s; simp [decUnit]
  pre := by
    intro b v r h
    simp only [decUnit, Res.pure_out] at h
    injection h with h; injection h with e1 e2; subst e2
    exact ⟨[], rfl⟩

/-! ### Bytes, BytesImpl<N>, String -/

theorem decBytes_eq : decBytes = decLenPrefixed fun _ => true := rfl

theorem decStr_eq : decStr = decLenPrefixed validUtf8 := rfl

theorem decLenPrefixed_ok {ok : Bytes → Bool} {b r : Bytes} {v : V} :
    (decLenPrefixed ok b).out = .ok (v, r) ↔
      ∃ l c, b = l ++ c ++ r ∧ l.length = 4 ∧ c.length = beVal l ∧ ok c = true ∧ v = .bytes c := by
  unfold decLenPrefixed
  rw [Res.bind_ok]
  constructor
  · rintro ⟨⟨len, r1⟩, h1, h2⟩
    obtain ⟨l, rfl, hl, rfl⟩ := readUint_ok.mp h1
    simp only at h2
    cases hr : readBytes (beVal l) r1 with
    | ok cr =>
      obtain ⟨c, r'⟩ := cr
      rw [hr] at h2
      obtain ⟨rfl, hc⟩ := readBytes_ok.mp hr
      by_cases hok : ok c = true
      · simp only [hok, if_true, Res.pure_out] at h2
        injection h2 with h2; injection h2 with e1 e2; subst e1; subst e2
        exact ⟨l, c, by simp, hl, hc, hok, rfl⟩
      · simp [hok] at h2
    | err => rw [hr] at h2; simp at h2
    | panic s => exact absurd hr (readBytes_no_panic _ _ _)
  · rintro ⟨l, c, rfl, hl, hc, hok, rfl⟩
    refine ⟨(beVal l, c ++ r), readUint_ok.mpr ⟨l, by simp, hl, rfl⟩, ?_⟩
    simp only
    rw [← hc, readBytes_append]
    simp [hok]

theorem decLenPrefixed_np (ok : Bytes → Bool) (b : Bytes) (s : String) : (decLenPrefixed ok b).out ≠ .panic s := by
  unfold decLenPrefixed
  rw [Ne, Res.bind_panic]
  rintro (h | ⟨a, _, h⟩)
  · exact readUint_no_panic _ _ _ h
  · cases hr : readBytes a.1 a.2 with
    | ok cr => obtain ⟨c, r'⟩ := cr; rw [hr] at h; simp only at h; split at h <;> simp at h
    | err => rw [hr] at h; simp at h
    | panic s' => exact absurd hr (readBytes_no_panic _ _ _)

theorem codec_lenPrefixed (ok : Bytes → Bool) :
    Codec (decLenPrefixed ok)
      (fun v => match v with
        | .bytes c => if c.length < u32Max && ok c then some (be 4 c.length ++ c) else none
        | _ => none)
      (fun v => match v with
        | .bytes c => decide (c.length < u32Max) && ok c
        | _ => false) where
  rt := by
    intro v hv
    cases v <;> simp at hv
    rename_i c
    obtain ⟨hlen, hok⟩ := hv
    refine ⟨be 4 c.length ++ c, by simp [hlen, hok], fun r => ?_⟩
    refine decLenPrefixed_ok.mpr ⟨be 4 c.length, c, rfl, be_length _ _, ?_, hok, rfl⟩
    rw [beVal_be 4 _ (by rw [← u32Max_eq]; exact hlen)]
  cn := by
    intro b v r hb h
    obtain ⟨l, c, rfl, hl, hc, hok, rfl⟩ := decLenPrefixed_ok.mp h
    have hlb : isBytes l := (isBytes_append.mp (isBytes_append.mp hb).1).1
    have hlt : c.length < u32Max := by
      rw [hc, u32Max_eq, ← hl]; exact beVal_lt l hlb
    refine ⟨l ++ c, ?_, rfl, by simp [hlt, hok]⟩
    simp only [hlt, hok, decide_true, Bool.and_self, if_true]
    rw [hc, ← hl, be_beVal l hlb]

theorem total_lenPrefixed (ok : Bytes → Bool) : Total (decLenPrefixed ok) where
  np := decLenPrefixed_np ok
  pre := by
    intro b v r h
    obtain ⟨l, c, rfl, _⟩ := decLenPrefixed_ok.mp h
    exact ⟨l ++ c, rfl⟩

theorem codec_bytes : Codec decBytes encBytes wfBytes := by
  have h := codec_lenPrefixed fun _ => true
  rw [← decBytes_eq] at h
  have e1 : encBytes = fun v => match v with
      | .bytes c => if c.length < u32Max && (fun _ => true) c then some (be 4 c.length ++ c) else none
      | _ => none := by
    funext v; cases v <;> simp [encBytes]
  have e2 : wfBytes = fun v => match v with
      | .bytes c => decide (c.length < u32Max) && (fun _ => true) c
      | _ => false := by
    funext v; cases v <;> simp [wfBytes]
  rw [e1, e2]; exact h

theorem total_bytes : Total decBytes := decBytes_eq ▸ total_lenPrefixed _

theorem codec_str : Codec decStr encStr wfStr := by
  have h := codec_lenPrefixed validUtf8
  have e1 : encStr = fun v => match v with
      | .bytes c => if c.length < u32Max && validUtf8 c then some (be 4 c.length ++ c) else none
      | _ => none := by
    funext v; cases v <;> simp [encStr]
  have e2 : wfStr = fun v => match v with
      | .bytes c => decide (c.length < u32Max) && validUtf8 c
      | _ => false := by
    funext v; cases v <;> simp [wfStr]
  rw [e1, e2, decStr_eq]; exact h

theorem total_str : Total decStr := decStr_eq ▸ total_lenPrefixed _

/-! ### fixed-width opaque elements (BytesImpl<N>, G1, G2, GT, secret key) -/

theorem decOpaque_ok {s : String} {n : Nat} {valid : Bytes → Bool} {b r : Bytes} {v : V} :
    (decOpaque s n valid b).out = .ok (v, r) ↔ ∃ c, b = c ++ r ∧ c.length = n ∧ valid c = true ∧ v = .bytes c := by
  unfold decOpaque
  rw [Res.bind_ok]
  constructor
  · rintro ⟨⟨c, r'⟩, h1, h2⟩
    obtain ⟨rfl, hl⟩ := readFixed_ok.mp h1
    by_cases hv : valid c = true
    · simp only [hv, if_true, Res.pure_out] at h2
      injection h2 with h2; injection h2 with e1 e2; subst e1; subst e2
      exact ⟨c, rfl, hl, hv, rfl⟩
    · simp [hv] at h2
  · rintro ⟨c, rfl, hl, hv, rfl⟩
    exact ⟨(c, r), readFixed_ok.mpr ⟨rfl, hl⟩, by simp [hv]⟩

theorem decOpaque_np (s : String) (n : Nat) (valid : Bytes → Bool) (b : Bytes) (s' : String) :
    (decOpaque s n valid b).out ≠ .panic s' := by
  unfold decOpaque
  rw [Ne, Res.bind_panic]
  rintro (h | ⟨a, _, h⟩)
  · exact readFixed_no_panic _ _ _ _ h
  · split at h <;> simp at h

theorem wfOpaque_iff {n : Nat} {valid : Bytes → Bool} {v : V} :
    wfOpaque n valid v = true ↔ ∃ c, v = .bytes c ∧ c.length = n ∧ valid c = true := by
  cases v <;> simp [wfOpaque]

theorem codec_opaque (s : String) (n : Nat) (valid : Bytes → Bool) :
    Codec (decOpaque s n valid) (encBytesN n) (wfOpaque n valid) where
  rt := by
    intro v hv
    obtain ⟨c, rfl, hl, hval⟩ := wfOpaque_iff.mp hv
    exact ⟨c, by simp [encBytesN, hl], fun r => decOpaque_ok.mpr ⟨c, rfl, hl, hval, rfl⟩⟩
  cn := by
    intro b v r _ h
    obtain ⟨c, rfl, hl, hval, rfl⟩ := decOpaque_ok.mp h
    exact ⟨c, by simp [encBytesN, hl], rfl, wfOpaque_iff.mpr ⟨c, rfl, hl, hval⟩⟩

theorem total_opaque (s : String) (n : Nat) (valid : Bytes → Bool) : Total (decOpaque s n valid) where
  np := decOpaque_np s n valid
  pre := by
    intro b v r h
    obtain ⟨c, rfl, _⟩ := decOpaque_ok.mp h
    exact ⟨c, rfl⟩

theorem decBytesN_eq (n : Nat) : decBytesN n = decOpaque siteBytesN n fun _ => true := by
  funext b; simp [decBytesN, decOpaque]

theorem wfBytesN_eq (n : Nat) : wfBytesN n = wfOpaque n fun _ => true := by
  funext v; cases v <;> simp [wfBytesN, wfOpaque]

theorem codec_bytesN (n : Nat) : Codec (decBytesN n) (encBytesN n) (wfBytesN n) := by
  rw [decBytesN_eq, wfBytesN_eq]; exact codec_opaque _ _ _

theorem total_bytesN (n : Nat) : Total (decBytesN n) := by
  rw [decBytesN_eq]; exact total_opaque _ _ _

theorem agree_opaque (s : String) (n : Nat) (v1 v2 : Bytes → Bool) (h : ∀ c, v1 c = true → v2 c = true) :
    Agree (decOpaque s n v1) (decOpaque s n v2) := by
  intro b x hx
  obtain ⟨v, r⟩ := x
  obtain ⟨c, rfl, hl, hv, rfl⟩ := decOpaque_ok.mp hx
  exact decOpaque_ok.mpr ⟨c, rfl, hl, h c hv, rfl⟩

theorem pointOk_trusted {st : Nat} (h : pointOk false st = true) : pointOk true st = true := by
  simp [pointOk] at *; omega

/-! ### enum -/

theorem decEnum_ok {vals : List Nat} {b r : Bytes} {v : V} :
    (decEnum vals b).out = .ok (v, r) ↔ ∃ x, b = x :: r ∧ x ∈ vals ∧ v = .n x := by
  unfold decEnum
  rw [Res.bind_ok]
  constructor
  · rintro ⟨⟨x, r'⟩, h1, h2⟩
    obtain ⟨c, rfl, hl, rfl⟩ := readUint_ok.mp h1
    match c, hl with
    | [y], _ =>
      have hy : beVal [y] = y := by simp [beVal]
      simp only [hy] at h2
      by_cases hc : y ∈ vals
      · simp only [List.contains_iff_mem, hc, if_true, Res.pure_out] at h2
        injection h2 with h2; injection h2 with e1 e2; subst e1; subst e2
        exact ⟨y, rfl, hc, rfl⟩
      · simp [hc] at h2
  · rintro ⟨x, rfl, hc, rfl⟩
    refine ⟨(x, r), readUint_ok.mpr ⟨[x], rfl, rfl, by simp [beVal]⟩, ?_⟩
    simp [hc]

theorem decEnum_np (vals : List Nat) (b : Bytes) (s : String) : (decEnum vals b).out ≠ .panic s := by
  unfold decEnum
  rw [Ne, Res.bind_panic]
  rintro (h | ⟨a, _, h⟩)
  · exact readUint_no_panic _ _ _ h
  · split at h <;> simp at h

theorem codec_enum (vals : List Nat) : Codec (decEnum vals) (encEnum vals) (wfEnum vals) where
  rt := by
    intro v hv
    cases v <;> simp [wfEnum] at hv
    rename_i x
    exact ⟨[x], by simp [encEnum, hv], fun r => decEnum_ok.mpr ⟨x, rfl, hv, rfl⟩⟩
  cn := by
    intro b v r _ h
    obtain ⟨x, rfl, hc, rfl⟩ := decEnum_ok.mp h
    exact ⟨[x], by simp [encEnum, hc], rfl, by simp [wfEnum, hc]⟩

theorem total_enum (vals : List Nat) : Total (decEnum vals) where
  np := decEnum_np vals
  pre := by
    intro b v r h
    obtain ⟨x, rfl, _⟩ := decEnum_ok.mp h
    exact ⟨[x], rfl⟩

/-! ### Program -/

theorem decProgram_ok {O : Oracles} {tr : Bool} {b r : Bytes} {v : V} :
    (decProgram O tr b).out = .ok (v, r) ↔
      ∃ n, O.serLen tr b = some n ∧ n ≤ b.length ∧ v = .bytes (b.take n) ∧ r = b.drop n := by
  unfold decProgram
  cases hs : O.serLen tr b with
  | none => simp
  | some n =>
    simp only
    by_cases hge : ClvmScan.lenGe b n = true
    · have hle := (lenGe_iff b n).mp hge
      have hlen : (b.take n).length = n := by simp [List.length_take]; omega
      simp only [hge, Bool.not_true, Bool.false_eq_true, if_false, hlen, if_true, Res.pure_out]
      constructor
      · intro e; injection e with e; injection e with e1 e2
        exact ⟨n, rfl, hle, e1.symm, e2.symm⟩
      · rintro ⟨n', hn, _, rfl, rfl⟩
        injection hn with hn; subst hn; rfl
    · have hlt : ¬ n ≤ b.length := fun h => hge ((lenGe_iff b n).mpr h)
      simp only [hge, Bool.not_false, if_true, Res.fail_out]
      constructor
      · intro e; cases e
      · rintro ⟨n', hn, hle, _⟩
        injection hn with hn; subst hn; exact absurd hle hlt

theorem decProgram_np (O : Oracles) (tr : Bool) (b : Bytes) (s : String) : (decProgram O tr b).out ≠ .panic s := by
  unfold decProgram
  cases hs : O.serLen tr b with
  | none => simp
  | some n =>
    simp only
    by_cases hge : ClvmScan.lenGe b n = true
    · have hle := (lenGe_iff b n).mp hge
      have hlen : (b.take n).length = n := by simp [List.length_take]; omega
      simp [hge, hlen]
    · simp [hge]

theorem codec_program (O : Oracles) (hO : OracleContract O) (tr : Bool) :
    Codec (decProgram O tr) encProgram (wfProgram O tr) where
  rt := by
    intro v hv
    cases v <;> simp [wfProgram] at hv
    rename_i c
    have hs : O.serLen tr c = some c.length := hv
    refine ⟨c, rfl, fun r => ?_⟩
    have := hO.serLen_prefix tr c c.length hs (Nat.le_refl _) r
    rw [List.take_length] at this
    exact decProgram_ok.mpr ⟨c.length, this, by simp, by simp, by simp⟩
  cn := by
    intro b v r _ h
    obtain ⟨n, hs, hle, rfl, rfl⟩ := decProgram_ok.mp h
    refine ⟨b.take n, rfl, List.take_append_drop n b, ?_⟩
    have := hO.serLen_prefix tr b n hs hle []
    simp only [List.append_nil] at this
    have hlen : (b.take n).length = n := by simp [List.length_take]; omega
    simp [wfProgram, this, hlen]

theorem total_program (O : Oracles) (tr : Bool) : Total (decProgram O tr) where
  np := decProgram_np O tr
  pre := by
    intro b v r h
    obtain ⟨n, _, _, _, rfl⟩ := decProgram_ok.mp h
    exact ⟨b.take n, (List.take_append_drop n b).symm⟩

theorem agree_program (O : Oracles) (hO : OracleContract O) : Agree (decProgram O false) (decProgram O true) := by
  intro b x hx
  obtain ⟨v, r⟩ := x
  obtain ⟨n, hs, hle, rfl, rfl⟩ := decProgram_ok.mp hx
  exact decProgram_ok.mpr ⟨n, hO.serLen_trusted b n hs, hle, rfl, rfl⟩

end ChiaModel.Streamable
