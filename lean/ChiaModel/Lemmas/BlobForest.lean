import ChiaModel.Lemmas.BlobDel2
/-
C18: the allocation phase of `batch_insert` builds a forest of new subtrees next to the stored tree.
-/
namespace ChiaModel.Blob
open List M

/-- all indexes / leaves of a forest -/
def fIdx (F : List IT) : List Nat := F.flatMap IT.indices
def fLeaves (F : List IT) : List (Nat × KVH) := F.flatMap IT.leaves

theorem fIdx_append (F G : List IT) : fIdx (F ++ G) = fIdx F ++ fIdx G := by simp [fIdx]
theorem fLeaves_append (F G : List IT) : fLeaves (F ++ G) = fLeaves F ++ fLeaves G := by simp [fLeaves]

/-- the state `s'` reached from `s` while a batch allocates: `F` = the new subtrees built so far -/
structure FT (s s' : Blob) (F : List IT) : Prop where
  lenLe : s.blocks.length ≤ s'.blocks.length
  same : ∀ j, j < s.blocks.length → j ∉ s.free → s'.blocks[j]? = s.blocks[j]?
  rep : ∀ c ∈ F, Rep s'.blocks none c
  nodup : (fIdx F).Nodup
  new : ∀ j ∈ fIdx F, j ∈ s.free ∨ s.blocks.length ≤ j
  newIdx : ∀ j, s.blocks.length ≤ j → j < s'.blocks.length → j ∈ fIdx F
  free : ∀ j, j ∈ s'.free ↔ (j ∈ s.free ∧ j ∉ fIdx F)
  freeNodup : s'.free.Nodup
  k2i : s'.k2i ~ (fLeaves F).map (fun e => (e.2.1, e.1)) ++ s.k2i
  h2i : s'.h2i ~ (fLeaves F).map (fun e => (e.2.2.2, e.1)) ++ s.h2i
  range : RangeP s'
  k2iNodup : (s'.k2i.map (·.1)).Nodup
  h2iNodup : (s'.h2i.map (·.1)).Nodup
  lh : ∀ c ∈ F, LH s'.blocks none c ∧ dirtyB s'.blocks c.idx = false

theorem FT.refl {s : Blob} (hn : s.free.Nodup) (hr : RangeP s) (hk : (s.k2i.map (·.1)).Nodup)
    (hh : (s.h2i.map (·.1)).Nodup) : FT s s [] :=
  ⟨Nat.le_refl _, fun _ _ _ => rfl, fun _ h => (by cases h), List.nodup_nil, fun _ h => (by cases h),
    fun j h1 h2 => absurd h2 (Nat.not_lt.mpr h1), fun j => by simp [fIdx], hn, by simp [fLeaves], by simp [fLeaves], hr,
    hk, hh, fun _ h => (by cases h)⟩

theorem FT.lt {s s' : Blob} {F : List IT} (t : FT s s' F) : ∀ j ∈ fIdx F, j < s'.blocks.length := by
  intro j hj
  simp only [fIdx, List.mem_flatMap] at hj
  obtain ⟨c, hc, hjc⟩ := hj
  exact (t.rep c hc).lt j hjc

/-- allocate one index: either a free one or a fresh one at the end -/
theorem getNewIndex_ft {s s' : Blob} {F : List IT} (t : FT s s' F) (hlt : ∀ i ∈ s.free, i < s.blocks.length) :
    ∃ i s'', getNewIndex s' = (.ok i, s'') ∧ i ∉ fIdx F ∧ (i ∈ s.free ∨ s.blocks.length ≤ i)
      ∧ i < s''.blocks.length ∧ s'.blocks.length ≤ s''.blocks.length
      ∧ (∀ j, j < s'.blocks.length → s''.blocks[j]? = s'.blocks[j]?)
      ∧ (∀ j, s'.blocks.length ≤ j → j < s''.blocks.length → j = i)
      ∧ (∀ j, j ∈ s''.free ↔ (j ∈ s'.free ∧ j ≠ i)) ∧ s''.free.Nodup
      ∧ s''.k2i = s'.k2i ∧ s''.h2i = s'.h2i ∧ RangeP s'' := by
  rw [getNewIndex_run]
  cases hf : s'.free with
  | cons i rest =>
    have hi : i ∈ s'.free := by rw [hf]; simp
    have hnd := t.freeNodup
    rw [hf] at hnd
    simp only [List.nodup_cons] at hnd
    refine ⟨i, _, rfl, ((t.free i).mp hi).2, Or.inl ((t.free i).mp hi).1,
      Nat.lt_of_lt_of_le (hlt i ((t.free i).mp hi).1) t.lenLe, Nat.le_refl _, fun _ _ => rfl,
      fun j h1 h2 => absurd h2 (Nat.not_lt.mpr h1), ?_, hnd.2, rfl, rfl, t.range.congr rfl⟩
    intro j
    show j ∈ rest ↔ _
    simp only [List.mem_cons]
    constructor
    · intro h; exact ⟨Or.inr h, fun e => hnd.1 (e ▸ h)⟩
    · rintro ⟨h | h, h2⟩
      · exact absurd h h2
      · exact h
  | nil =>
    refine ⟨s'.blocks.length, _, rfl, ?_, Or.inr t.lenLe, by simp, by simp, ?_, ?_, ?_, by simp, rfl, rfl, ?_⟩
    · intro hm; exact absurd (t.lt _ hm) (Nat.lt_irrefl _)
    · intro j hj; exact List.getElem?_append_left hj
    · intro j h1 h2; simp only [List.length_append, List.length_cons, List.length_nil] at h2; omega
    · intro j
      show j ∈ [] ↔ _
      simp
    · intro j b hb p hp
      simp only [List.length_append, List.length_cons, List.length_nil]
      by_cases hjl : j < s'.blocks.length
      · have hb' : s'.blocks[j]? = some b := by
          have : (s'.blocks ++ [Block.zero])[j]? = some b := hb
          rwa [List.getElem?_append_left hjl] at this
        have := t.range j b hb' p hp; omega
      · have : (s'.blocks ++ [Block.zero])[j]? = some b := hb
        rw [List.getElem?_append_right (Nat.le_of_not_lt hjl)] at this
        have hm := List.mem_of_getElem? this
        simp only [List.mem_singleton] at hm
        subst hm; simp [Block.zero, Node.parent] at hp

/-- what `get_new_index` returned, packaged -/
structure Alloc (s s' s1 : Blob) (F : List IT) (i : Nat) : Prop where
  notIn : i ∉ fIdx F
  isNew : i ∈ s.free ∨ s.blocks.length ≤ i
  lt : i < s1.blocks.length
  lenLe : s'.blocks.length ≤ s1.blocks.length
  same : ∀ j, j < s'.blocks.length → s1.blocks[j]? = s'.blocks[j]?
  newIdx : ∀ j, s'.blocks.length ≤ j → j < s1.blocks.length → j = i
  free : ∀ j, j ∈ s1.free ↔ (j ∈ s'.free ∧ j ≠ i)
  freeNodup : s1.free.Nodup
  k2i : s1.k2i = s'.k2i
  h2i : s1.h2i = s'.h2i
  range : RangeP s1

theorem getNewIndex_alloc {s s' : Blob} {F : List IT} (t : FT s s' F) (hlt : ∀ i ∈ s.free, i < s.blocks.length) :
    ∃ i s1, getNewIndex s' = (.ok i, s1) ∧ Alloc s s' s1 F i := by
  obtain ⟨i, s1, e, a1, a2, a3, a4, a5, a6, a7, a8, a9, a10, a11⟩ := getNewIndex_ft t hlt
  exact ⟨i, s1, e, ⟨a1, a2, a3, a4, a5, a6, a7, a8, a9, a10, a11⟩⟩

/-- the blocks of the forest and the old live blocks are not disturbed by an allocation and a write
at the allocated index -/
theorem Alloc.write_other {s s' s1 : Blob} {F : List IT} {i : Nat} (t : FT s s' F) (A : Alloc s s' s1 F i) (b : Block) :
    (∀ j, j ∈ fIdx F → (s1.write i b).blocks[j]? = s'.blocks[j]?) ∧
    (∀ j, j < s.blocks.length → j ∉ s.free → (s1.write i b).blocks[j]? = s.blocks[j]?) := by
  constructor
  · intro j hj
    have hji : j ≠ i := fun e => A.notIn (e ▸ hj)
    rw [write_get _ _ _ A.lt, if_neg hji, A.same j (t.lt j hj)]
  · intro j hj hjf
    have hji : j ≠ i := by
      intro e; subst e
      rcases A.isNew with h | h
      · exact hjf h
      · omega
    rw [write_get _ _ _ A.lt, if_neg hji, A.same j (Nat.lt_of_lt_of_le hj t.lenLe), t.same j hj hjf]

/-- a new leaf joins the forest -/
theorem ft_add_leaf {s s' s1 : Blob} {F : List IT} {i : Nat} (t : FT s s' F) (A : Alloc s s' s1 F i)
    (k : KeyId) (v : ValueId) (h : Hash) (hk : mapGet s'.k2i k = none) (hh : mapGet s'.h2i h = none) :
    FT s (s1.write i { dirty := false, node := .leaf h none k v }) (F ++ [.leaf i k v h]) := by
  obtain ⟨o1, o2⟩ := A.write_other t { dirty := false, node := .leaf h none k v }
  have hlen : (s1.write i { dirty := false, node := .leaf h none k v }).blocks.length = s1.blocks.length :=
    write_len _ _ _ A.lt
  have hself : (s1.write i { dirty := false, node := .leaf h none k v }).blocks[i]?
      = some { dirty := false, node := .leaf h none k v } := by rw [write_get _ _ _ A.lt, if_pos rfl]
  have hinot : i ∉ s1.free := fun hm => ((A.free i).mp hm).2 rfl
  refine ⟨by rw [hlen]; exact Nat.le_trans t.lenLe A.lenLe, o2, ?_, ?_, ?_, ?_, ?_, ?_, ?_, ?_, ?_,
    by rw [write_k2i_leaf, A.k2i]; exact mapInsert_keys_nodup _ _ _ t.k2iNodup,
    by rw [write_h2i_leaf, A.h2i]; exact mapInsert_keys_nodup _ _ _ t.h2iNodup, ?_⟩
  rotate_right
  · intro c hc
    rcases List.mem_append.mp hc with hc | hc
    · have hcF : ∀ j ∈ c.indices, j ∈ fIdx F := fun j hj => by
        simp only [fIdx, List.mem_flatMap]; exact ⟨c, hc, hj⟩
      have hsm : ∀ j ∈ c.indices, dirtyB (s1.write i { dirty := false, node := .leaf h none k v }).blocks j = dirtyB s'.blocks j
          ∧ hashB (s1.write i { dirty := false, node := .leaf h none k v }).blocks j = hashB s'.blocks j := by
        intro j hj
        have := o1 j (hcF j hj)
        simp [dirtyB, hashB, blockAt, this]
      exact ⟨LH.congr hsm (t.lh c hc).1, by rw [(hsm _ c.idx_mem).1]; exact (t.lh c hc).2⟩
    · simp only [List.mem_singleton] at hc; subst hc
      exact ⟨trivial, by simp [dirtyB, blockAt, IT.idx, hself]⟩
  · intro c hc
    rcases List.mem_append.mp hc with hc | hc
    · exact (t.rep c hc).congr (fun j hj => o1 j (by simp only [fIdx, List.mem_flatMap]; exact ⟨c, hc, hj⟩))
    · simp only [List.mem_singleton] at hc; subst hc; exact hself
  · rw [fIdx_append, List.nodup_append]
    refine ⟨t.nodup, by simp [fIdx, IT.indices], ?_⟩
    intro a ha b hb hab
    simp only [fIdx, List.flatMap_cons, List.flatMap_nil, IT.indices, List.append_nil, List.mem_singleton] at hb
    exact A.notIn (hb ▸ hab ▸ ha)
  · intro j hj
    rw [fIdx_append] at hj
    rcases List.mem_append.mp hj with hj | hj
    · exact t.new j hj
    · simp only [fIdx, List.flatMap_cons, List.flatMap_nil, IT.indices, List.append_nil, List.mem_singleton] at hj
      rw [hj]; exact A.isNew
  · intro j h1 h2
    rw [hlen] at h2
    rw [fIdx_append]
    by_cases hj : j < s'.blocks.length
    · exact List.mem_append.mpr (Or.inl (t.newIdx j h1 hj))
    · have := A.newIdx j (Nat.le_of_not_lt hj) h2
      exact List.mem_append.mpr (Or.inr (by simp [fIdx, IT.indices, this]))
  · intro j
    rw [write_free, List.erase_of_not_mem hinot, A.free j, t.free j, fIdx_append]
    simp only [fIdx, List.flatMap_cons, List.flatMap_nil, IT.indices, List.append_nil, List.mem_append,
      List.mem_singleton, not_or]
    constructor
    · rintro ⟨⟨a, b⟩, c⟩; exact ⟨a, b, c⟩
    · rintro ⟨a, b, c⟩; exact ⟨⟨a, b⟩, c⟩
  · rw [write_free, List.erase_of_not_mem hinot]; exact A.freeNodup
  · rw [write_k2i_leaf, A.k2i, fLeaves_append]
    refine (mapInsert_perm_new _ _ _ hk).trans ?_
    simp only [fLeaves, List.flatMap_cons, List.flatMap_nil, IT.leaves, List.append_nil, List.map_append,
      List.map_cons, List.map_nil]
    refine (List.Perm.cons _ t.k2i).trans ?_
    simp only [fLeaves, List.append_assoc, List.cons_append, List.nil_append]
    exact List.perm_middle.symm
  · rw [write_h2i_leaf, A.h2i, fLeaves_append]
    refine (mapInsert_perm_new _ _ _ hh).trans ?_
    simp only [fLeaves, List.flatMap_cons, List.flatMap_nil, IT.leaves, List.append_nil, List.map_append,
      List.map_cons, List.map_nil]
    refine (List.Perm.cons _ t.h2i).trans ?_
    simp only [fLeaves, List.append_assoc, List.cons_append, List.nil_append]
    exact List.perm_middle.symm
  · intro j b hb p hp
    rw [hlen]
    rw [write_get _ _ _ A.lt] at hb
    by_cases hj : j = i
    · rw [if_pos hj] at hb; injection hb with hb; subst hb; simp [Node.parent] at hp
    · rw [if_neg hj] at hb; exact A.range j b hb p hp

theorem mapGet_none_of_perm {κ : Type} [DecidableEq κ] {a b : List (κ × Nat)} (p : a ~ b) (k : κ)
    (h : mapGet b k = none) : mapGet a k = none := by
  rw [mapGet_none_iff] at h ⊢
  intro e he; exact h e (p.mem_iff.mp he)

theorem FT.fresh_key {s s' : Blob} {F : List IT} (t : FT s s' F) (k : KeyId) (hk : mapGet s.k2i k = none)
    (hF : k ∉ (fLeaves F).map (·.2.1)) : mapGet s'.k2i k = none := by
  apply mapGet_none_of_perm t.k2i
  rw [mapGet_none_iff]
  intro e he
  rcases List.mem_append.mp he with he | he
  · obtain ⟨x, hx, rfl⟩ := List.mem_map.mp he
    exact fun e' => hF (List.mem_map.mpr ⟨x, hx, e'⟩)
  · exact (mapGet_none_iff _ _).mp hk e he

theorem FT.fresh_hash {s s' : Blob} {F : List IT} (t : FT s s' F) (h : Hash) (hh : mapGet s.h2i h = none)
    (hF : h ∉ (fLeaves F).map (·.2.2.2)) : mapGet s'.h2i h = none := by
  apply mapGet_none_of_perm t.h2i
  rw [mapGet_none_iff]
  intro e he
  rcases List.mem_append.mp he with he | he
  · obtain ⟨x, hx, rfl⟩ := List.mem_map.mp he
    exact fun e' => hF (List.mem_map.mpr ⟨x, hx, e'⟩)
  · exact (mapGet_none_iff _ _).mp hh e he

/-- the leaf-creation loop of `batch_insert` -/
theorem batchLeaves_ft {s : Blob} (hlt : ∀ i ∈ s.free, i < s.blocks.length) (l : List KVH) :
    ∀ {s' : Blob} {F0 : List IT}, FT s s' F0 →
    (∀ e ∈ l, mapGet s.k2i e.1 = none ∧ mapGet s.h2i e.2.2 = none) →
    ((fLeaves F0).map (·.2.1) ++ l.map (·.1)).Nodup → ((fLeaves F0).map (·.2.2.2) ++ l.map (·.2.2)).Nodup →
    ∃ idxs s'' G, batchLeaves l s' = (.ok idxs, s'') ∧ idxs = G.map IT.idx
      ∧ G.map IT.erase = l.map (fun e => T.leaf e.1 e.2.1 e.2.2)
      ∧ FT s s'' (F0 ++ G) := by
  induction l with
  | nil =>
    intro s' F0 t _ _ _
    exact ⟨[], s', [], rfl, rfl, rfl, by simpa using t⟩
  | cons x l ih =>
    intro s' F0 t hfresh hkn hhn
    obtain ⟨k, v, h⟩ := x
    obtain ⟨hk0, hh0⟩ := hfresh (k, v, h) (by simp)
    have hkF : k ∉ (fLeaves F0).map (·.2.1) := by
      intro hm
      have := (List.nodup_append.mp hkn).2.2 k hm k (by simp)
      exact this rfl
    have hhF : h ∉ (fLeaves F0).map (·.2.2.2) := by
      intro hm
      have := (List.nodup_append.mp hhn).2.2 h hm h (by simp)
      exact this rfl
    obtain ⟨i, s1, e1, A⟩ := getNewIndex_alloc t hlt
    have t2 := ft_add_leaf t A k v h (t.fresh_key k hk0 hkF) (t.fresh_hash h hh0 hhF)
    have hkn2 : ((fLeaves (F0 ++ [IT.leaf i k v h])).map (·.2.1) ++ l.map (·.1)).Nodup := by
      have : (fLeaves (F0 ++ [IT.leaf i k v h])).map (·.2.1) ++ l.map (·.1)
          = (fLeaves F0).map (·.2.1) ++ (k :: l.map (·.1)) := by
        simp [fLeaves, IT.leaves]
      rw [this]; simpa using hkn
    have hhn2 : ((fLeaves (F0 ++ [IT.leaf i k v h])).map (·.2.2.2) ++ l.map (·.2.2)).Nodup := by
      have : (fLeaves (F0 ++ [IT.leaf i k v h])).map (·.2.2.2) ++ l.map (·.2.2)
          = (fLeaves F0).map (·.2.2.2) ++ (h :: l.map (·.2.2)) := by
        simp [fLeaves, IT.leaves]
      rw [this]; simpa using hhn
    obtain ⟨idxs, s3, G, e3, hi, he, t3⟩ := ih t2 (fun e he => hfresh e (List.mem_cons_of_mem _ he)) hkn2 hhn2
    refine ⟨i :: idxs, s3, IT.leaf i k v h :: G, ?_, by simp [hi, IT.idx], by simp [he, IT.erase], by simpa using t3⟩
    simp only [batchLeaves, bind_run, e1, writeBlock_run]
    rw [if_neg (by simp only [gt_iff_lt, Nat.not_lt]; exact Nat.le_of_lt A.lt)]
    simp only [e3, pure_run]

/-- the tracker does not depend on the order of the forest -/
theorem FT.perm {s s' : Blob} {F F' : List IT} (t : FT s s' F) (p : F ~ F') : FT s s' F' := by
  have pi : fIdx F ~ fIdx F' := List.Perm.flatMap_right _ p
  have pl : fLeaves F ~ fLeaves F' := List.Perm.flatMap_right _ p
  refine ⟨t.lenLe, t.same, fun c hc => t.rep c (p.mem_iff.mpr hc), pi.nodup_iff.mp t.nodup,
    fun j hj => t.new j (pi.mem_iff.mpr hj), fun j h1 h2 => pi.mem_iff.mp (t.newIdx j h1 h2), ?_, t.freeNodup,
    ?_, ?_, t.range, t.k2iNodup, t.h2iNodup, fun c hc => t.lh c (p.mem_iff.mpr hc)⟩
  · intro j; rw [t.free j]
    constructor
    · rintro ⟨a, b⟩; exact ⟨a, fun h => b (pi.mem_iff.mpr h)⟩
    · rintro ⟨a, b⟩; exact ⟨a, fun h => b (pi.mem_iff.mp h)⟩
  · exact t.k2i.trans (List.Perm.append_right _ (pl.map _))
  · exact t.h2i.trans (List.Perm.append_right _ (pl.map _))

/-- one pairing step: two trees of the forest get a new common parent -/
theorem ft_pair {s s' : Blob} {a b : IT} {R : List IT} (hlt : ∀ i ∈ s.free, i < s.blocks.length)
    (t : FT s s' (a :: b :: R)) :
    ∃ ni s'', (do
        let ni ← getNewIndex
        let b1 ← updateParent a.idx (some ni)
        let b2 ← updateParent b.idx (some ni)
        writeBlock ni { dirty := false, node := .internal (internalHash b1.node.hash b2.node.hash) none a.idx b.idx }
        pure ni : M Nat) s' = (.ok ni, s'') ∧ FT s s'' (IT.node ni a b :: R) := by
  obtain ⟨ni, s1, e1, A⟩ := getNewIndex_alloc t hlt
  have hra := t.rep a (by simp)
  have hrb := t.rep b (by simp)
  have haF : ∀ j ∈ a.indices, j ∈ fIdx (a :: b :: R) := fun j hj => by simp [fIdx, hj]
  have hbF : ∀ j ∈ b.indices, j ∈ fIdx (a :: b :: R) := fun j hj => by simp [fIdx, hj]
  have hnd := t.nodup
  simp only [fIdx, List.flatMap_cons] at hnd
  obtain ⟨han, hrest, hdis1⟩ := List.nodup_append.mp hnd
  obtain ⟨hbn, hRn, hdis2⟩ := List.nodup_append.mp hrest
  have hab : a.idx ≠ b.idx := fun e => hdis1 _ a.idx_mem _ (List.mem_append.mpr (Or.inl b.idx_mem)) e
  have hani : a.idx ≠ ni := fun e => A.notIn (e ▸ haF _ a.idx_mem)
  have hbni : b.idx ≠ ni := fun e => A.notIn (e ▸ hbF _ b.idx_mem)
  -- the root blocks
  obtain ⟨ba, hba⟩ : ∃ x, s'.blocks[a.idx]? = some x := ⟨s'.blocks[a.idx]'(hra.lt _ a.idx_mem), List.getElem?_eq_getElem _⟩
  obtain ⟨bb, hbb⟩ : ∃ x, s'.blocks[b.idx]? = some x := ⟨s'.blocks[b.idx]'(hrb.lt _ b.idx_mem), List.getElem?_eq_getElem _⟩
  have hal1 : a.idx < s1.blocks.length := Nat.lt_of_lt_of_le (hra.lt _ a.idx_mem) A.lenLe
  have hbl1 : b.idx < s1.blocks.length := Nat.lt_of_lt_of_le (hrb.lt _ b.idx_mem) A.lenLe
  have hba1 : s1.blocks[a.idx]? = some ba := by rw [A.same _ (hra.lt _ a.idx_mem)]; exact hba
  generalize hX2 : s1.write a.idx { ba with node := ba.node.setParent (some ni) } = X2
  have hl2 : X2.blocks.length = s1.blocks.length := by rw [← hX2]; exact write_len _ _ _ hal1
  have hbb2 : X2.blocks[b.idx]? = some bb := by
    rw [← hX2, write_get _ _ _ hal1, if_neg (fun e => hab e.symm), A.same _ (hrb.lt _ b.idx_mem)]; exact hbb
  generalize hX3 : X2.write b.idx { bb with node := bb.node.setParent (some ni) } = X3
  have hl3 : X3.blocks.length = s1.blocks.length := by rw [← hX3, write_len _ _ _ (by rw [hl2]; exact hbl1), hl2]
  generalize hnb : ({ dirty := false, node := .internal (internalHash (ba.node.setParent (some ni)).hash
      (bb.node.setParent (some ni)).hash) none a.idx b.idx } : Block) = nb
  generalize hX4 : X3.write ni nb = X4
  have hni3 : ni < X3.blocks.length := by rw [hl3]; exact A.lt
  have hl4 : X4.blocks.length = s1.blocks.length := by rw [← hX4, write_len _ _ _ hni3, hl3]
  have eB : ∀ j, X4.blocks[j]? = if j = ni then some nb else if j = b.idx then some { bb with node := bb.node.setParent (some ni) }
      else if j = a.idx then some { ba with node := ba.node.setParent (some ni) } else s1.blocks[j]? := by
    intro j
    rw [← hX4, write_get _ _ _ hni3, ← hX3, write_get _ _ _ (by rw [hl2]; exact hbl1), ← hX2, write_get _ _ _ hal1]
  refine ⟨ni, X4, ?_, ?_⟩
  · simp only [bind_run, e1]
    rw [updateParent_run a.idx (some ni) s1 ba hba1]
    simp only [hX2]
    rw [updateParent_run b.idx (some ni) X2 bb hbb2]
    simp only [hX3, writeBlock_run]
    rw [if_neg (by simp only [gt_iff_lt, Nat.not_lt]; exact Nat.le_of_lt hni3)]
    simp only [pure_run, hnb, hX4]
  · -- the tracker for the new forest
    have oldSame : ∀ j, j ≠ ni → j ≠ a.idx → j ≠ b.idx → j < s'.blocks.length → X4.blocks[j]? = s'.blocks[j]? := by
      intro j h1 h2 h3 h4
      rw [eB j, if_neg h1, if_neg h3, if_neg h2, A.same j h4]
    have tailNe : ∀ (c : IT), c.indices.Nodup → ∀ j ∈ c.indices.tail, j ≠ c.idx := by
      intro c hcn j hj e
      cases c with
      | leaf _ _ _ _ => simp [IT.indices] at hj
      | node i l r =>
        simp only [IT.indices, List.tail_cons] at hj
        simp only [IT.indices, List.nodup_cons] at hcn
        simp only [IT.idx] at e
        exact hcn.1 (e ▸ hj)
    have hself : X4.blocks[ni]? = some nb := by rw [eB ni, if_pos rfl]
    have hinot1 : ni ∉ s1.free := fun hm => ((A.free ni).mp hm).2 rfl
    have hX4free : X4.free = s1.free := by
      rw [← hX4, write_free, ← hX3, write_free, ← hX2, write_free]
      have n1 : a.idx ∉ s1.free := fun hm => ((t.free _).mp ((A.free _).mp hm).1).2 (haF _ a.idx_mem)
      have n2 : b.idx ∉ s1.free := fun hm => ((t.free _).mp ((A.free _).mp hm).1).2 (hbF _ b.idx_mem)
      rw [List.erase_of_not_mem n1, List.erase_of_not_mem n2, List.erase_of_not_mem hinot1]
    -- caches: the two re-parenting writes re-insert entries that are already there
    have rootLeaf : ∀ (c : IT) (x : Block), Rep s'.blocks none c → s'.blocks[c.idx]? = some x →
        ∀ h q k v, x.node = .leaf h q k v → (c.idx, k, v, h) ∈ c.leaves := by
      intro c x hc hx h q k v hn
      cases c with
      | leaf i k' v' h' =>
        simp only [Rep] at hc
        simp only [IT.idx] at hx
        rw [hc] at hx; injection hx with hx; subst hx
        simp only at hn; injection hn with e1 _ e3 e4
        simp [IT.leaves, IT.idx, e1, e3, e4]
      | node i l r =>
        simp only [Rep] at hc
        obtain ⟨⟨d, hh, hb⟩, _, _⟩ := hc
        simp only [IT.idx] at hx
        rw [hb] at hx; injection hx with hx; subst hx; simp at hn
    have hcache : X4.k2i ~ (fLeaves (IT.node ni a b :: R)).map (fun e => (e.2.1, e.1)) ++ s.k2i
        ∧ X4.h2i ~ (fLeaves (IT.node ni a b :: R)).map (fun e => (e.2.2.2, e.1)) ++ s.h2i
        ∧ (X4.k2i.map (·.1)).Nodup ∧ (X4.h2i.map (·.1)).Nodup := by
      have lvEq' : fLeaves (IT.node ni a b :: R) = fLeaves (a :: b :: R) := by simp [fLeaves, IT.leaves]
      rw [lvEq']
      have hMn := (t.k2i.map (·.1)).nodup_iff.mp t.k2iNodup
      have hMhn := (t.h2i.map (·.1)).nodup_iff.mp t.h2iNodup
      have inM : ∀ (c : IT), c ∈ a :: b :: R → ∀ (x : Block), s'.blocks[c.idx]? = some x → ∀ h q k v, x.node = .leaf h q k v →
          (k, c.idx) ∈ (fLeaves (a :: b :: R)).map (fun e => (e.2.1, e.1)) ++ s.k2i
            ∧ (h, c.idx) ∈ (fLeaves (a :: b :: R)).map (fun e => (e.2.2.2, e.1)) ++ s.h2i := by
        intro c hc x hx h q k v hn
        have hm := rootLeaf c x (t.rep c hc) hx h q k v hn
        have hmF : (c.idx, k, v, h) ∈ fLeaves (a :: b :: R) := List.mem_flatMap.mpr ⟨c, hc, hm⟩
        exact ⟨List.mem_append.mpr (Or.inl (List.mem_map.mpr ⟨_, hmF, rfl⟩)),
          List.mem_append.mpr (Or.inl (List.mem_map.mpr ⟨_, hmF, rfl⟩))⟩
      have c1 := write_cache_perm s1 a.idx ba (some ni) _ _ (by rw [A.k2i]; exact t.k2i) (by rw [A.h2i]; exact t.h2i)
        hMn hMhn (inM a (by simp) ba hba)
      rw [hX2] at c1
      have c2 := write_cache_perm X2 b.idx bb (some ni) _ _ c1.1 c1.2 hMn hMhn (inM b (by simp) bb hbb)
      rw [hX3] at c2
      have e4k : X4.k2i = X3.k2i := by rw [← hX4, ← hnb]; rfl
      have e4h : X4.h2i = X3.h2i := by rw [← hX4, ← hnb]; rfl
      rw [e4k, e4h]
      exact ⟨c2.1, c2.2, (c2.1.map (·.1)).nodup_iff.mpr hMn, (c2.2.map (·.1)).nodup_iff.mpr hMhn⟩
    have idxPerm : fIdx (IT.node ni a b :: R) = ni :: fIdx (a :: b :: R) := by
      simp [fIdx, IT.indices]
    have lvEq : fLeaves (IT.node ni a b :: R) = fLeaves (a :: b :: R) := by
      simp [fLeaves, IT.leaves]
    refine ⟨by rw [hl4]; exact Nat.le_trans t.lenLe A.lenLe, ?_, ?_, ?_, ?_, ?_, ?_, ?_, hcache.1, hcache.2.1, ?_,
      hcache.2.2.1, hcache.2.2.2, ?_⟩
    · intro j hj hjf
      have n1 : j ≠ ni := by
        intro e; subst e
        rcases A.isNew with h | h
        · exact hjf h
        · omega
      have notF : j ∉ fIdx (a :: b :: R) := by
        intro hm
        rcases t.new j hm with h | h
        · exact hjf h
        · omega
      rw [oldSame j n1 (fun e => notF (e ▸ haF _ a.idx_mem)) (fun e => notF (e ▸ hbF _ b.idx_mem))
        (Nat.lt_of_lt_of_le hj t.lenLe), t.same j hj hjf]
    · intro c hc
      rcases List.mem_cons.mp hc with hc | hc
      · subst hc
        simp only [Rep]
        refine ⟨⟨false, _, by rw [hself, ← hnb]⟩, ?_, ?_⟩
        · refine hra.reparent (fun y hy => by
            rw [hba] at hy; injection hy with hy; subst hy
            rw [eB a.idx, if_neg hani, if_neg hab, if_pos rfl]) ?_
          intro j hj
          have hjm := List.mem_of_mem_tail hj
          refine oldSame j (fun e => A.notIn (e ▸ haF j hjm)) (tailNe a han j hj) ?_ (hra.lt j hjm)
          intro e
          exact hdis1 j hjm _ (List.mem_append.mpr (Or.inl b.idx_mem)) e
        · refine hrb.reparent (fun y hy => by
            rw [hbb] at hy; injection hy with hy; subst hy
            rw [eB b.idx, if_neg hbni, if_pos rfl]) ?_
          intro j hj
          have hjm := List.mem_of_mem_tail hj
          refine oldSame j (fun e => A.notIn (e ▸ hbF j hjm)) ?_ (tailNe b hbn j hj) (hrb.lt j hjm)
          intro e
          exact hdis1 _ a.idx_mem j (List.mem_append.mpr (Or.inl hjm)) e.symm
      · have hcr := t.rep c (List.mem_cons_of_mem _ (List.mem_cons_of_mem _ hc))
        refine hcr.congr ?_
        intro j hj
        have hjR : j ∈ R.flatMap IT.indices := List.mem_flatMap.mpr ⟨c, hc, hj⟩
        have hjF : j ∈ fIdx (a :: b :: R) := by simp [fIdx]; exact Or.inr (Or.inr (List.mem_flatMap.mp hjR))
        refine oldSame j (fun e => A.notIn (e ▸ hjF)) ?_ ?_ (hcr.lt j hj)
        · intro e
          exact hdis1 _ a.idx_mem j (List.mem_append.mpr (Or.inr hjR)) e.symm
        · intro e
          exact hdis2 _ b.idx_mem j hjR e.symm
    · rw [idxPerm]; exact List.nodup_cons.mpr ⟨A.notIn, t.nodup⟩
    · intro j hj
      rw [idxPerm] at hj
      rcases List.mem_cons.mp hj with e | e
      · rw [e]; exact A.isNew
      · exact t.new j e
    · intro j h1 h2
      rw [hl4] at h2
      rw [idxPerm]
      by_cases hj : j < s'.blocks.length
      · exact List.mem_cons_of_mem _ (t.newIdx j h1 hj)
      · rw [A.newIdx j (Nat.le_of_not_lt hj) h2]; exact List.mem_cons_self
    · intro j
      rw [hX4free, A.free j, t.free j, idxPerm]
      simp only [List.mem_cons, not_or]
      constructor
      · rintro ⟨⟨x, y⟩, z⟩; exact ⟨x, z, y⟩
      · rintro ⟨x, z, y⟩; exact ⟨⟨x, y⟩, z⟩
    · rw [hX4free]; exact A.freeNodup
    · intro j x hx q hq
      rw [hl4]
      rw [eB j] at hx
      by_cases h1 : j = ni
      · rw [if_pos h1] at hx; injection hx with hx; subst hx; rw [← hnb] at hq; simp [Node.parent] at hq
      · rw [if_neg h1] at hx
        have parNi : ∀ (y : Block), ({ y with node := y.node.setParent (some ni) } : Block).node.parent = some q → q < s1.blocks.length := by
          intro y hy
          have : q = ni := by cases hn : y.node <;> simp [hn, Node.setParent, Node.parent] at hy <;> exact hy.symm
          rw [this]; exact A.lt
        by_cases h2 : j = b.idx
        · rw [if_pos h2] at hx; injection hx with hx; subst hx; exact parNi bb hq
        · rw [if_neg h2] at hx
          by_cases h3 : j = a.idx
          · rw [if_pos h3] at hx; injection hx with hx; subst hx; exact parNi ba hq
          · rw [if_neg h3] at hx; exact A.range j x hx q hq

    · -- the hash invariant of the new forest
      have hsp : ∀ (y : Block), (y.node.setParent (some ni)).hash = y.node.hash := by
        intro y; cases y.node <;> rfl
      have hXa : X4.blocks[a.idx]? = some { ba with node := ba.node.setParent (some ni) } := by
        rw [eB a.idx, if_neg hani, if_neg hab, if_pos rfl]
      have hXb : X4.blocks[b.idx]? = some { bb with node := bb.node.setParent (some ni) } := by
        rw [eB b.idx, if_neg hbni, if_pos rfl]
      have dh : ∀ j ∈ fIdx (a :: b :: R), dirtyB X4.blocks j = dirtyB s'.blocks j ∧ hashB X4.blocks j = hashB s'.blocks j := by
        intro j hj
        have hjn : j ≠ ni := fun e => A.notIn (e ▸ hj)
        by_cases e1 : j = b.idx
        · rw [e1]; simp [dirtyB, hashB, blockAt, hXb, hbb, hsp]
        · by_cases e2 : j = a.idx
          · rw [e2]; simp [dirtyB, hashB, blockAt, hXa, hba, hsp]
          · have : X4.blocks[j]? = s'.blocks[j]? := by
              rw [eB j, if_neg hjn, if_neg e1, if_neg e2, A.same j (t.lt j hj)]
            simp [dirtyB, hashB, blockAt, this]
      intro c hc
      rcases List.mem_cons.mp hc with hc | hc
      · subst hc
        have la := t.lh a (by simp)
        have lb := t.lh b (by simp)
        refine ⟨⟨LH.congr (fun j hj => dh j (haF j hj)) la.1, LH.congr (fun j hj => dh j (hbF j hj)) lb.1, ?_⟩, ?_⟩
        · intro _ _
          refine ⟨by rw [(dh _ (haF _ a.idx_mem)).1]; exact la.2, by rw [(dh _ (hbF _ b.idx_mem)).1]; exact lb.2, ?_⟩
          simp [hashB, blockAt, hself, hXa, hXb, ← hnb, Node.hash]
        · simp [dirtyB, blockAt, IT.idx, hself, ← hnb]
      · have hcF : ∀ j ∈ c.indices, j ∈ fIdx (a :: b :: R) := by
          intro j hj
          simp only [fIdx, List.flatMap_cons, List.mem_append, List.mem_flatMap]
          exact Or.inr (Or.inr ⟨c, hc, hj⟩)
        have lc := t.lh c (List.mem_cons_of_mem _ (List.mem_cons_of_mem _ hc))
        exact ⟨LH.congr (fun j hj => dh j (hcF j hj)) lc.1, by rw [(dh _ (hcF _ c.idx_mem)).1]; exact lc.2⟩

/-- one pairing level of `batch_insert` -/
theorem pairLevel_ft {s : Blob} (hlt : ∀ i ∈ s.free, i < s.blocks.length) (n : Nat) :
    ∀ (Q D : List IT) {s' : Blob}, Q.length ≤ n → FT s s' (Q ++ D) →
    ∃ idxs s'' Q', pairLevel (Q.map IT.idx) s' = (.ok idxs, s'') ∧ idxs = Q'.map IT.idx
      ∧ Q'.map IT.erase = T.pairLevel (Q.map IT.erase) ∧ FT s s'' (Q' ++ D) := by
  induction n with
  | zero =>
    intro Q D s' hn t
    have : Q = [] := List.length_eq_zero_iff.mp (Nat.le_zero.mp hn)
    subst this
    exact ⟨[], s', [], rfl, rfl, rfl, t⟩
  | succ n ih =>
    intro Q D s' hn t
    match Q, hn, t with
    | [], _, t => exact ⟨[], s', [], rfl, rfl, rfl, t⟩
    | [a], _, t => exact ⟨[a.idx], s', [a], rfl, rfl, rfl, t⟩
    | a :: b :: R, hn, t =>
      have t0 : FT s s' (a :: b :: (R ++ D)) := by simpa using t
      obtain ⟨ni, s1, e1, t1⟩ := ft_pair hlt t0
      have t1' : FT s s1 (R ++ (IT.node ni a b :: D)) :=
        t1.perm (by simpa using (List.perm_middle (a := IT.node ni a b) (l₁ := R) (l₂ := D)).symm)
      obtain ⟨idxs, s2, Q', e2, hi, he, t2⟩ := ih R (IT.node ni a b :: D) (by simp at hn; omega) t1'
      refine ⟨ni :: idxs, s2, IT.node ni a b :: Q', ?_, by simp [hi, IT.idx], by simp [he, T.pairLevel, IT.erase], ?_⟩
      · simp only [List.map_cons, pairLevel]
        simp only [bind_run] at e1 ⊢
        -- run the first pair, then the rest
        cases hg : getNewIndex s' with
        | mk r0 sA =>
          rw [hg] at e1
          cases r0 with
          | error e => simp at e1
          | ok i0 =>
            simp only at e1 ⊢
            cases hu1 : updateParent a.idx (some i0) sA with
            | mk r1 sB =>
              rw [hu1] at e1
              cases r1 with
              | error e => simp at e1
              | ok b1 =>
                simp only at e1 ⊢
                cases hu2 : updateParent b.idx (some i0) sB with
                | mk r2 sC =>
                  rw [hu2] at e1
                  cases r2 with
                  | error e => simp at e1
                  | ok b2 =>
                    simp only at e1 ⊢
                    cases hw : writeBlock i0 { dirty := false, node := .internal (internalHash b1.node.hash b2.node.hash) none a.idx b.idx } sC with
                    | mk r3 sD =>
                      rw [hw] at e1
                      cases r3 with
                      | error e => simp at e1
                      | ok u =>
                        simp only [pure_run, Prod.mk.injEq, Except.ok.injEq] at e1 ⊢
                        obtain ⟨e1a, e1b⟩ := e1
                        subst e1a; subst e1b
                        simp only [e2, pure_run]
      · exact t2.perm (by simpa using (List.perm_middle (a := IT.node ni a b) (l₁ := Q') (l₂ := D)))

/-- the bottom-up pairing of `batch_insert` -/
theorem buildUp_ft {s : Blob} (hlt : ∀ i ∈ s.free, i < s.blocks.length) (f : Nat) :
    ∀ (Q : List IT) {s' : Blob}, FT s s' Q →
    ∃ idxs s'' Q', buildUp f (Q.map IT.idx) s' = (.ok idxs, s'') ∧ idxs = Q'.map IT.idx
      ∧ Q'.map IT.erase = T.buildUp f (Q.map IT.erase) ∧ FT s s'' Q' := by
  induction f with
  | zero => intro Q s' t; exact ⟨Q.map IT.idx, s', Q, rfl, rfl, rfl, t⟩
  | succ f ih =>
    intro Q s' t
    simp only [buildUp, T.buildUp, List.length_map]
    by_cases hl : Q.length > 1
    · rw [if_pos hl, if_pos hl]
      obtain ⟨idxs, s1, Q1, e1, hi1, he1, t1⟩ := pairLevel_ft hlt Q.length Q [] (Nat.le_refl _) (by simpa using t)
      obtain ⟨idxs2, s2, Q2, e2, hi2, he2, t2⟩ := ih Q1 (by simpa using t1)
      refine ⟨idxs2, s2, Q2, ?_, hi2, by rw [he2, he1], t2⟩
      simp only [bind_run, e1, hi1, e2]
    · rw [if_neg hl, if_neg hl]
      exact ⟨Q.map IT.idx, s', Q, rfl, rfl, rfl, t⟩

end ChiaModel.Blob
