import ChiaModel.Model.Conditions
/-
The cost countdown of `parse_spends` (C04): lowering the limit by δ either lowers the remaining
budget by δ, or — exactly when δ exceeds what was left — fails with cost-exceeded.
-/
namespace ChiaModel.Cond

theorem charge_ok_iff {m c m' : Nat} : charge m c = .ok m' ↔ c ≤ m ∧ m' = m - c := by
  unfold charge; split
  · constructor
    · intro h; cases h
    · intro ⟨h, _⟩; omega
  · constructor
    · intro h; injection h with h; omega
    · intro ⟨_, h⟩; rw [h]

theorem charge_err {m c : Nat} {e : Err} (h : charge m c = .error e) : e = .costExceeded := by
  unfold charge at h; split at h
  · injection h with h; exact h.symm
  · cases h

/-- `Shift f` : the limit-dependence of a countdown computation `f : Nat → R (α × Nat)`. -/
def Shift {α : Type} (f : Nat → R (α × Nat)) : Prop :=
  ∀ m a m', f m = .ok (a, m') →
    m' ≤ m ∧ (∀ δ, δ ≤ m' → f (m - δ) = .ok (a, m' - δ)) ∧
    (∀ δ, m' < δ → δ ≤ m → f (m - δ) = .error .costExceeded)

theorem shift_pure {α : Type} (a : α) : Shift (fun m => (.ok (a, m) : R (α × Nat))) := by
  intro m a' m' h
  injection h with h; injection h with h1 h2; subst h1; subst h2
  exact ⟨Nat.le_refl _, fun δ _ => rfl, fun δ h1 h2 => by omega⟩

theorem shift_error {α : Type} (e : Err) : Shift (fun _ => (.error e : R (α × Nat))) := by
  intro m a m' h; cases h

theorem chargeThen_eq {α : Type} (a : α) (c m : Nat) :
    (do let m ← charge m c; pure (a, m) : R (α × Nat)) =
      if m < c then .error .costExceeded else .ok (a, m - c) := by
  unfold charge; split <;> rfl

theorem shift_charge {α : Type} (a : α) (c : Nat) :
    Shift (fun m => (do let m ← charge m c; pure (a, m) : R (α × Nat))) := by
  intro m a' m' h
  simp only [chargeThen_eq] at h ⊢
  by_cases hc : m < c
  · rw [if_pos hc] at h; cases h
  · rw [if_neg hc] at h
    injection h with h; injection h with h1 h2; subst h1; subst h2
    refine ⟨by omega, fun δ hδ => ?_, fun δ h1 h2 => ?_⟩
    · rw [if_neg (by omega)]
      congr 2; omega
    · rw [if_pos (by omega)]

/-- sequential composition preserves `Shift` -/
theorem shift_bind {α β : Type} (f : Nat → R (α × Nat)) (g : α → Nat → R (β × Nat))
    (hf : Shift f) (hg : ∀ a, Shift (g a)) :
    Shift (fun m => (do let (a, m) ← f m; g a m : R (β × Nat))) := by
  intro m b m'' h
  simp only [bind, Except.bind] at h
  cases hfm : f m with
  | error e => rw [hfm] at h; cases h
  | ok p =>
    obtain ⟨a, m'⟩ := p
    rw [hfm] at h
    simp only at h
    obtain ⟨h1, h2, h3⟩ := hf m a m' hfm
    obtain ⟨g1, g2, g3⟩ := hg a m' b m'' h
    refine ⟨by omega, fun δ hδ => ?_, fun δ hδ1 hδ2 => ?_⟩
    · simp only [bind, Except.bind]
      rw [h2 δ (by omega)]
      exact g2 δ hδ
    · simp only [bind, Except.bind]
      by_cases hc : δ ≤ m'
      · rw [h2 δ hc]
        exact g3 δ hδ1 hc
      · rw [h3 δ (by omega) hδ2]

theorem shift_addCost (s : CSt) (c : Nat) : Shift (fun m => addCost s m c) := by
  have := shift_charge (bump s c) c
  simpa [addCost] using this

theorem shift_stepCond (env : Env) (s : CSt) (c : Sexp) : Shift (fun m => stepCond env s m c) := by
  unfold stepCond
  cases hf : first c with
  | error e => simpa [bind, Except.bind] using shift_error (α := CSt) e
  | ok opn =>
    simp only [bind, Except.bind]
    cases parseOpcode opn with
    | none =>
      simp only
      split
      · exact shift_error _
      · split
        · exact shift_addCost _ _
        · exact shift_pure s
    | some op =>
      simp only
      apply shift_bind (fun m => addCost s m (preCharge env.flags op))
        (fun s m => do let (s, extra) ← pureCond env s c op; addCost s m extra)
      · exact shift_addCost _ _
      · intro s'
        cases hp : pureCond env s' c op with
        | error e => simpa [bind, Except.bind] using shift_error (α := CSt) e
        | ok p => simpa [bind, Except.bind] using shift_addCost p.1 p.2

theorem shift_condLoop (env : Env) (t : Sexp) : ∀ s, Shift (fun m => condLoop env t s m) := by
  induction t with
  | atom b =>
    intro s
    cases b with
    | nil => simpa [condLoop] using shift_pure s
    | cons x xs => simpa [condLoop] using shift_error (α := CSt) Err.reject
  | pair c nxt _ ih =>
    intro s
    simp only [condLoop]
    exact shift_bind (fun m => stepCond env s m c) (fun s m => condLoop env nxt s m) (shift_stepCond env s c) ih

end ChiaModel.Cond

namespace ChiaModel.Cond

theorem shift_processSingleSpend (env : Env) (ret : Bundle) (st : PState) (parent ph amount conds : Sexp) (cc : Nat) :
    Shift (fun m => processSingleSpend env ret st parent ph amount conds cc m) := by
  unfold processSingleSpend
  cases spendHeader ret st parent ph amount cc with
  | error e => exact shift_error e
  | ok s0 =>
    simp only
    apply shift_bind (fun m => addCost s0 m (spendCharge env.flags))
      (fun s0 m => do let (s, m) ← condLoop env conds (newSpendVisit env s0) m; return (finishSpend env s, m))
    · exact shift_addCost _ _
    · intro s1
      apply shift_bind (fun m => condLoop env conds (newSpendVisit env s1) m)
        (fun s m => (pure (finishSpend env s, m) : R ((Bundle × PState) × Nat)))
      · exact shift_condLoop env conds _
      · intro s; exact shift_pure _

theorem shift_spendLoop (env : Env) (cc : Nat) (t : Sexp) :
    ∀ ret st n, Shift (fun m => spendLoop env cc t ret st n m) := by
  induction t with
  | atom b =>
    intro ret st n
    cases b with
    | nil => simpa [spendLoop] using shift_pure (ret, st)
    | cons x xs => simpa [spendLoop] using shift_error (α := Bundle × PState) Err.reject
  | pair sp nxt _ ih =>
    intro ret st n
    simp only [spendLoop]
    split
    · exact shift_error _
    · cases parseSingleSpend sp with
      | error e => exact shift_error e
      | ok q =>
        obtain ⟨parent, ph, amount, conds⟩ := q
        simp only
        exact shift_bind (fun m => processSingleSpend env ret st parent ph amount conds cc m)
          (fun p m => spendLoop env cc nxt p.1 p.2 (n - 1) m)
          (shift_processSingleSpend env ret st parent ph amount conds cc) (fun p => ih p.1 p.2 (n - 1))

end ChiaModel.Cond
