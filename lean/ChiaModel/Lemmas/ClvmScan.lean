import ChiaModel.Lemmas.StreamableBase
/-!
The serialised-length scans of `Model/ClvmScan.lean` satisfy `OracleContract`:
they read only the bytes they report (prefix stability), the trusted scan accepts whatever the validating scan
accepts with the same length, and a serialisation has at least one byte.
-/
namespace ChiaModel.ClvmScan
open ChiaModel ChiaModel.Streamable

theorem lenGe_append_left (q s : Bytes) : lenGe (q ++ s) q.length = true := by
  rw [lenGe_iff]; simp

theorem take_drop_of_lenGe {b : Bytes} {n : Nat} (h : lenGe b n = true) :
    b = b.take n ++ b.drop n ∧ (b.take n).length = n := by
  rw [lenGe_iff] at h
  exact ⟨(List.take_append_drop n b).symm, by simp [List.length_take]; omega⟩

/-- `decodeSize` looks only at the bytes it consumes -/
theorem decodeSize_pd {b0 : Nat} {rest r : Bytes} {sz : Nat} (h : decodeSize b0 rest = some (sz, r)) :
    ∃ q, rest = q ++ r ∧ ∀ s, decodeSize b0 (q ++ s) = some (sz, s) := by
  unfold decodeSize at h
  simp only at h
  split at h
  · cases h
  · split at h
    · cases h
    · rename_i h1 h2
      split at h
      · cases h
      · split at h
        · cases h
        · rename_i h3 h4
          injection h with h; injection h with e1 e2
          have hge : lenGe rest (leadingOnes b0 - 1) = true := by simpa using h2
          obtain ⟨hsplit, hlen⟩ := take_drop_of_lenGe hge
          refine ⟨rest.take (leadingOnes b0 - 1), by rw [← e2]; exact hsplit, fun s => ?_⟩
          unfold decodeSize
          simp only
          rw [if_neg h1]
          have hge' : lenGe (rest.take (leadingOnes b0 - 1) ++ s) (leadingOnes b0 - 1) = true := by
            have := lenGe_append_left (rest.take (leadingOnes b0 - 1)) s
            rwa [hlen] at this
          rw [if_neg (by simp [hge'])]
          rw [if_neg h3]
          have htake : (rest.take (leadingOnes b0 - 1) ++ s).take (leadingOnes b0 - 1) = rest.take (leadingOnes b0 - 1) := by
            rw [List.take_append_of_le_length (by omega)]
            rw [List.take_take]; simp
          have hdrop : (rest.take (leadingOnes b0 - 1) ++ s).drop (leadingOnes b0 - 1) = s := by
            rw [List.drop_append_of_le_length (by omega)]
            rw [List.drop_of_length_le (by omega)]; simp
          rw [htake, hdrop, if_neg h4, e1]

theorem decodeSize_len {b0 : Nat} {rest r : Bytes} {sz : Nat} (h : decodeSize b0 rest = some (sz, r)) :
    r.length ≤ rest.length := by
  obtain ⟨q, rfl, _⟩ := decodeSize_pd h; simp

theorem skip_pd {sz : Nat} {b r : Bytes} (h : skip sz b = some r) :
    ∃ q, b = q ++ r ∧ ∀ s, skip sz (q ++ s) = some s := by
  unfold skip at h
  split at h
  · rename_i hge
    injection h with h
    obtain ⟨hsplit, hlen⟩ := take_drop_of_lenGe hge
    refine ⟨b.take sz, by rw [← h]; exact hsplit, fun s => ?_⟩
    unfold skip
    have hge' : lenGe (b.take sz ++ s) sz = true := by
      have := lenGe_append_left (b.take sz) s
      rwa [hlen] at this
    rw [if_pos hge']
    congr 1
    rw [List.drop_append_of_le_length (by omega)]
    rw [List.drop_of_length_le (by omega)]; simp
  · cases h

/-- atom body: size prefix then the bytes -/
theorem atom_pd {x : Nat} {b r : Bytes} {sz : Nat} {r3 : Bytes}
    (h1 : decodeSize x b = some (sz, r3)) (h2 : skip sz r3 = some r) :
    ∃ q, b = q ++ r ∧ ∀ s, decodeSize x (q ++ s) = some (sz, (r3.take sz) ++ s) ∧ skip sz ((r3.take sz) ++ s) = some s := by
  obtain ⟨q1, rfl, hq1⟩ := decodeSize_pd h1
  unfold skip at h2
  split at h2
  · rename_i hge
    injection h2 with h2
    obtain ⟨hsplit, hlen⟩ := take_drop_of_lenGe hge
    refine ⟨q1 ++ r3.take sz, by rw [List.append_assoc, ← h2, ← hsplit], fun s => ⟨?_, ?_⟩⟩
    · rw [List.append_assoc]; exact hq1 _
    · unfold skip
      have hge' : lenGe (r3.take sz ++ s) sz = true := by
        have := lenGe_append_left (r3.take sz) s
        rwa [hlen] at this
      rw [if_pos hge']
      congr 1
      rw [List.drop_append_of_le_length (by omega)]
      rw [List.drop_of_length_le (by omega)]; simp
  · cases h2

theorem parsePath_pd {b r path : Bytes} (h : parsePath b = some (path, r)) :
    ∃ q, q ≠ [] ∧ b = q ++ r ∧ ∀ s, parsePath (q ++ s) = some (path, s) := by
  unfold parsePath at h
  cases b with
  | nil => simp at h
  | cons y b1 =>
    simp only at h
    by_cases hy : y ≤ 0x7f
    · rw [if_pos hy] at h
      injection h with h; injection h with e1 e2; subst e1; subst e2
      exact ⟨[y], by simp, rfl, fun s => by simp [parsePath, hy]⟩
    · rw [if_neg hy] at h
      cases hds : decodeSize y b1 with
      | none => rw [hds] at h; simp at h
      | some p =>
        obtain ⟨sz, r3⟩ := p
        rw [hds] at h; simp only at h
        by_cases hge : lenGe r3 sz = true
        · rw [if_pos hge] at h
          injection h with h; injection h with e1 e2
          obtain ⟨q1, rfl, hq1⟩ := decodeSize_pd hds
          obtain ⟨hsplit, hlen⟩ := take_drop_of_lenGe hge
          refine ⟨y :: (q1 ++ r3.take sz), by simp, by rw [← e2]; simp [← hsplit], fun s => ?_⟩
          simp only [List.cons_append, parsePath]
          rw [if_neg hy, List.append_assoc, hq1]
          simp only
          have hge' : lenGe (r3.take sz ++ s) sz = true := by
            have := lenGe_append_left (r3.take sz) s
            rwa [hlen] at this
          rw [if_pos hge']
          have htake : (r3.take sz ++ s).take sz = r3.take sz := by
            rw [List.take_append_of_le_length (by omega)]
            rw [List.take_take]; simp
          have hdrop : (r3.take sz ++ s).drop sz = s := by
            rw [List.drop_append_of_le_length (by omega)]
            rw [List.drop_of_length_le (by omega)]; simp
          rw [htake, hdrop, e1]
        · rw [if_neg hge] at h; cases h

/-- one item is determined by the bytes it consumes, and consumes at least one -/
theorem item_pd {b r : Bytes} {k : Item} (h : item b = some (k, r)) :
    ∃ q, q ≠ [] ∧ b = q ++ r ∧ ∀ s, item (q ++ s) = some (k, s) := by
  unfold item at h
  cases b with
  | nil => simp at h
  | cons x b1 =>
    simp only at h
    by_cases hff : x = 0xff
    · rw [if_pos hff] at h
      injection h with h; injection h with e1 e2; subst e1; subst e2
      exact ⟨[x], by simp, rfl, fun s => by simp [item, hff]⟩
    · rw [if_neg hff] at h
      by_cases hfe : x = 0xfe
      · rw [if_pos hfe] at h
        cases hp : parsePath b1 with
        | none => rw [hp] at h; simp at h
        | some pr =>
          obtain ⟨path, r3⟩ := pr
          rw [hp] at h; simp only at h
          injection h with h; injection h with e1 e2; subst e1; subst e2
          obtain ⟨q, _, rfl, hq⟩ := parsePath_pd hp
          refine ⟨x :: q, by simp, rfl, fun s => ?_⟩
          simp only [List.cons_append, item]
          rw [if_neg hff, if_pos hfe, hq]
      · rw [if_neg hfe] at h
        by_cases hat : x = 0x80 ∨ x ≤ 0x7f
        · rw [if_pos hat] at h
          injection h with h; injection h with e1 e2; subst e1; subst e2
          exact ⟨[x], by simp, rfl, fun s => by simp only [List.cons_append, List.nil_append, item]; rw [if_neg hff, if_neg hfe, if_pos hat]⟩
        · rw [if_neg hat] at h
          cases hds : decodeSize x b1 with
          | none => rw [hds] at h; simp at h
          | some p =>
            obtain ⟨sz, r3⟩ := p
            rw [hds] at h; simp only at h
            cases hsk : skip sz r3 with
            | none => rw [hsk] at h; simp at h
            | some r4 =>
              rw [hsk] at h; simp only at h
              injection h with h; injection h with e1 e2; subst e1; subst e2
              obtain ⟨q1, rfl, hq1⟩ := atom_pd hds hsk
              refine ⟨x :: q1, by simp, rfl, fun s => ?_⟩
              simp only [List.cons_append, item]
              rw [if_neg hff, if_neg hfe, if_neg hat, (hq1 s).1]
              simp only
              rw [(hq1 s).2]

theorem item_len {b r : Bytes} {k : Item} (h : item b = some (k, r)) : r.length < b.length := by
  obtain ⟨q, hq, rfl, _⟩ := item_pd h
  cases q with
  | nil => exact absurd rfl hq
  | cons x xs => simp; omega

/-! ### the trusted scan -/

/-- number of items still expected after reading item `k` -/
def nextOps (k : Item) (ops : Nat) : Nat :=
  match k with
  | .cons => ops + 2
  | _ => ops

theorem scanT_succ (fuel ops : Nat) (b : Bytes) :
    scanT (fuel + 1) (ops + 1) b = match item b with
      | none => none
      | some (k, r) => scanT fuel (nextOps k ops) r := by
  rw [scanT]
  cases item b with
  | none => rfl
  | some p => obtain ⟨k, r⟩ := p; cases k <;> rfl

/-- prefix-determinacy: the scan of `q ++ s` leaves `s`, for every `s` -/
theorem scanT_pd : ∀ (fuel ops : Nat) (b r : Bytes), scanT fuel ops b = some r →
    ∃ q, b = q ++ r ∧ ∀ s, scanT fuel ops (q ++ s) = some s := by
  intro fuel
  induction fuel with
  | zero =>
    intro ops b r h
    cases ops with
    | zero => simp only [scanT] at h; injection h with h; subst h; exact ⟨[], rfl, fun s => by simp [scanT]⟩
    | succ n => simp [scanT] at h
  | succ fuel ih =>
    intro ops b r h
    cases ops with
    | zero => simp only [scanT] at h; injection h with h; subst h; exact ⟨[], rfl, fun s => by simp [scanT]⟩
    | succ ops =>
      rw [scanT_succ] at h
      cases hi : item b with
      | none => rw [hi] at h; cases h
      | some p =>
        obtain ⟨k, r1⟩ := p
        rw [hi] at h; simp only at h
        obtain ⟨q1, _, rfl, hq1⟩ := item_pd hi
        obtain ⟨q2, rfl, hq2⟩ := ih _ _ _ h
        refine ⟨q1 ++ q2, by simp, fun s => ?_⟩
        rw [scanT_succ, List.append_assoc, hq1]
        exact hq2 s

theorem scanT_len {fuel ops : Nat} {b r : Bytes} (h : scanT fuel ops b = some r) : r.length ≤ b.length := by
  obtain ⟨q, rfl, _⟩ := scanT_pd _ _ _ _ h; simp

/-- the result does not depend on the fuel once there is one unit per consumed byte -/
theorem scanT_fuel : ∀ (fuel ops : Nat) (b r : Bytes), scanT fuel ops b = some r →
    ∀ fuel', b.length - r.length ≤ fuel' → scanT fuel' ops b = some r := by
  intro fuel
  induction fuel with
  | zero =>
    intro ops b r h fuel' _
    cases ops with
    | zero => simp only [scanT] at h ⊢; exact h
    | succ n => simp [scanT] at h
  | succ fuel ih =>
    intro ops b r h fuel' hf
    cases ops with
    | zero => simp only [scanT] at h ⊢; exact h
    | succ ops =>
      rw [scanT_succ] at h
      cases hi : item b with
      | none => rw [hi] at h; cases h
      | some p =>
        obtain ⟨k, r1⟩ := p
        rw [hi] at h; simp only at h
        have l1 := item_len hi
        have l2 := scanT_len h
        obtain ⟨f'', rfl⟩ : ∃ f'', fuel' = f'' + 1 := ⟨fuel' - 1, by omega⟩
        rw [scanT_succ, hi]
        exact ih _ _ _ h f'' (by omega)

theorem scanT_mono : ∀ (fuel ops : Nat) (b r : Bytes), scanT fuel ops b = some r → scanT (fuel + 1) ops b = some r := by
  intro fuel
  induction fuel with
  | zero =>
    intro ops b r h
    cases ops with
    | zero => simp only [scanT] at h ⊢; exact h
    | succ n => simp [scanT] at h
  | succ fuel ih =>
    intro ops b r h
    cases ops with
    | zero => simp only [scanT] at h ⊢; exact h
    | succ ops =>
      rw [scanT_succ] at h ⊢
      cases hi : item b with
      | none => rw [hi] at h; cases h
      | some p =>
        obtain ⟨k, r1⟩ := p
        rw [hi] at h; simp only at h ⊢
        exact ih _ _ _ h

theorem scanT_pos {fuel ops : Nat} {b r : Bytes} (h : scanT fuel (ops + 1) b = some r) : r.length < b.length := by
  cases fuel with
  | zero => simp [scanT] at h
  | succ fuel =>
    rw [scanT_succ] at h
    cases hi : item b with
    | none => rw [hi] at h; cases h
    | some p =>
      obtain ⟨k, r1⟩ := p
      rw [hi] at h; simp only at h
      have l1 := item_len hi
      have l2 := scanT_len h
      omega

/-! ### the validating scan -/

def countSexp : List POp → Nat
  | [] => 0
  | .sexp :: ops => countSexp ops + 1
  | .cons :: ops => countSexp ops

theorem scanU_pd : ∀ (fuel : Nat) (ops : List POp) (vals : Sh) (b r : Bytes) (v' : Sh),
    scanU fuel ops vals b = some (v', r) →
    ∃ q, b = q ++ r ∧ ∀ s, scanU fuel ops vals (q ++ s) = some (v', s) := by
  intro fuel
  induction fuel with
  | zero =>
    intro ops vals b r v' h
    cases ops with
    | nil =>
      simp only [scanU] at h; injection h with h; injection h with e1 e2; subst e1; subst e2
      exact ⟨[], rfl, fun s => by simp [scanU]⟩
    | cons o ops => simp [scanU] at h
  | succ fuel ih =>
    intro ops vals b r v' h
    cases ops with
    | nil =>
      simp only [scanU] at h; injection h with h; injection h with e1 e2; subst e1; subst e2
      exact ⟨[], rfl, fun s => by simp [scanU]⟩
    | cons o ops =>
      cases o with
      | sexp =>
        rw [scanU] at h
        cases hi : item b with
        | none => rw [hi] at h; cases h
        | some p =>
          obtain ⟨k, r1⟩ := p
          obtain ⟨q1, _, rfl, hq1⟩ := item_pd hi
          rw [hi] at h
          cases k with
          | cons =>
            simp only at h
            obtain ⟨q2, rfl, hq2⟩ := ih _ _ _ _ _ h
            refine ⟨q1 ++ q2, by simp, fun s => ?_⟩
            rw [scanU, List.append_assoc, hq1]; exact hq2 s
          | atom =>
            simp only at h
            obtain ⟨q2, rfl, hq2⟩ := ih _ _ _ _ _ h
            refine ⟨q1 ++ q2, by simp, fun s => ?_⟩
            rw [scanU, List.append_assoc, hq1]; exact hq2 s
          | backref path =>
            simp only at h
            cases ht : traverse (8 * path.length + 2) (beVal path) vals with
            | none => rw [ht] at h; cases h
            | some node =>
              rw [ht] at h; simp only at h
              obtain ⟨q2, rfl, hq2⟩ := ih _ _ _ _ _ h
              refine ⟨q1 ++ q2, by simp, fun s => ?_⟩
              rw [scanU, List.append_assoc, hq1]; simp only; rw [ht]; exact hq2 s
      | cons =>
        cases vals with
        | a => simp [scanU] at h
        | p v1 w =>
          cases w with
          | a => simp [scanU] at h
          | p v3 v4 =>
            simp only [scanU] at h
            obtain ⟨q2, rfl, hq2⟩ := ih _ _ _ _ _ h
            exact ⟨q2, rfl, fun s => by simp only [scanU]; exact hq2 s⟩

theorem scanU_len {fuel : Nat} {ops : List POp} {vals v' : Sh} {b r : Bytes}
    (h : scanU fuel ops vals b = some (v', r)) : r.length ≤ b.length := by
  obtain ⟨q, rfl, _⟩ := scanU_pd _ _ _ _ _ _ h; simp

theorem scanU_fuel : ∀ (fuel : Nat) (ops : List POp) (vals : Sh) (b r : Bytes) (v' : Sh),
    scanU fuel ops vals b = some (v', r) →
    ∀ fuel', 3 * (b.length - r.length) + ops.length ≤ fuel' → scanU fuel' ops vals b = some (v', r) := by
  intro fuel
  induction fuel with
  | zero =>
    intro ops vals b r v' h fuel' _
    cases ops with
    | nil => simp only [scanU] at h ⊢; exact h
    | cons o ops => simp [scanU] at h
  | succ fuel ih =>
    intro ops vals b r v' h fuel' hf
    cases ops with
    | nil => simp only [scanU] at h ⊢; exact h
    | cons o ops =>
      obtain ⟨f'', rfl⟩ : ∃ f'', fuel' = f'' + 1 := ⟨fuel' - 1, by simp at hf; omega⟩
      cases o with
      | sexp =>
        rw [scanU] at h
        cases hi : item b with
        | none => rw [hi] at h; cases h
        | some p =>
          obtain ⟨k, r1⟩ := p
          have l1 := item_len hi
          rw [hi] at h
          simp only [List.length_cons] at hf
          cases k with
          | cons =>
            simp only at h
            have l2 := scanU_len h
            rw [scanU, hi]
            exact ih _ _ _ _ _ h f'' (by simp only [List.length_cons]; omega)
          | atom =>
            simp only at h
            have l2 := scanU_len h
            rw [scanU, hi]
            exact ih _ _ _ _ _ h f'' (by omega)
          | backref path =>
            simp only at h
            cases ht : traverse (8 * path.length + 2) (beVal path) vals with
            | none => rw [ht] at h; cases h
            | some node =>
              rw [ht] at h; simp only at h
              have l2 := scanU_len h
              rw [scanU, hi]; simp only; rw [ht]
              exact ih _ _ _ _ _ h f'' (by omega)
      | cons =>
        cases vals with
        | a => simp [scanU] at h
        | p v1 w =>
          cases w with
          | a => simp [scanU] at h
          | p v3 v4 =>
            simp only [scanU] at h ⊢
            simp only [List.length_cons] at hf
            exact ih _ _ _ _ _ h f'' (by omega)

/-- the trusted scan follows the validating scan: same items, same rest -/
theorem scanU_scanT : ∀ (fuel : Nat) (ops : List POp) (vals : Sh) (b r : Bytes) (v' : Sh),
    scanU fuel ops vals b = some (v', r) → scanT fuel (countSexp ops) b = some r := by
  intro fuel
  induction fuel with
  | zero =>
    intro ops vals b r v' h
    cases ops with
    | nil => simp only [scanU] at h; injection h with h; injection h with _ e2; subst e2; simp [countSexp, scanT]
    | cons o ops => simp [scanU] at h
  | succ fuel ih =>
    intro ops vals b r v' h
    cases ops with
    | nil => simp only [scanU] at h; injection h with h; injection h with _ e2; subst e2; simp [countSexp, scanT]
    | cons o ops =>
      cases o with
      | sexp =>
        rw [scanU] at h
        simp only [countSexp]
        rw [scanT_succ]
        cases hi : item b with
        | none => rw [hi] at h; cases h
        | some p =>
          obtain ⟨k, r1⟩ := p
          rw [hi] at h
          simp only
          cases k with
          | cons =>
            simp only at h
            have := ih _ _ _ _ _ h
            simpa [countSexp, nextOps] using this
          | atom =>
            simp only at h
            exact ih _ _ _ _ _ h
          | backref path =>
            simp only at h
            cases ht : traverse (8 * path.length + 2) (beVal path) vals with
            | none => rw [ht] at h; cases h
            | some node =>
              rw [ht] at h; simp only at h
              exact ih _ _ _ _ _ h
      | cons =>
        cases vals with
        | a => simp [scanU] at h
        | p v1 w =>
          cases w with
          | a => simp [scanU] at h
          | p v3 v4 =>
            simp only [scanU] at h
            have h1 := ih _ _ _ _ _ h
            simp only [countSexp]
            exact scanT_mono _ _ _ _ h1

theorem scanU_pos {fuel : Nat} {ops : List POp} {vals v' : Sh} {b r : Bytes}
    (h : scanU fuel (.sexp :: ops) vals b = some (v', r)) : r.length < b.length := by
  have := scanU_scanT _ _ _ _ _ _ h
  simp only [countSexp] at this
  exact scanT_pos this

/-! ### the contract -/

theorem clvmSerLen_true {b : Bytes} {n : Nat} (h : clvmSerLen true b = some n) :
    ∃ r, scanT (b.length + 1) 1 b = some r ∧ n = b.length - r.length := by
  simp only [clvmSerLen, if_true] at h
  cases hs : scanT (b.length + 1) 1 b with
  | none => rw [hs] at h; cases h
  | some r => rw [hs] at h; simp only [Option.map_some] at h; injection h with h; exact ⟨r, rfl, h.symm⟩

theorem clvmSerLen_false {b : Bytes} {n : Nat} (h : clvmSerLen false b = some n) :
    ∃ r v1 v2, scanU (3 * b.length + 3) [.sexp] .a b = some (.p v1 v2, r) ∧ n = b.length - r.length := by
  simp only [clvmSerLen, Bool.false_eq_true, if_false] at h
  cases hs : scanU (3 * b.length + 3) [.sexp] .a b with
  | none => rw [hs] at h; cases h
  | some p =>
    obtain ⟨v, r⟩ := p
    rw [hs] at h
    cases v with
    | a => cases h
    | p v1 v2 => simp only at h; injection h with h; exact ⟨r, v1, v2, rfl, h.symm⟩

theorem clvmSerLen_prefix (tr : Bool) (b : Bytes) (n : Nat) (h : clvmSerLen tr b = some n) (hn : n ≤ b.length)
    (x : Bytes) : clvmSerLen tr (b.take n ++ x) = some n := by
  cases tr with
  | true =>
    obtain ⟨r, hs, rfl⟩ := clvmSerLen_true h
    obtain ⟨q, hb, hq⟩ := scanT_pd _ _ _ _ hs
    have hqlen : b.length - r.length = q.length := by rw [hb]; simp
    have htake : b.take (b.length - r.length) = q := by rw [hqlen, hb]; simp
    rw [htake]
    have h1 := hq x
    have h2 := scanT_fuel _ _ _ _ h1 ((q ++ x).length + 1) (by simp; omega)
    simp only [clvmSerLen, if_true, h2, Option.map_some]
    congr 1; simp; omega
  | false =>
    obtain ⟨r, v1, v2, hs, rfl⟩ := clvmSerLen_false h
    obtain ⟨q, hb, hq⟩ := scanU_pd _ _ _ _ _ _ hs
    have hqlen : b.length - r.length = q.length := by rw [hb]; simp
    have htake : b.take (b.length - r.length) = q := by rw [hqlen, hb]; simp
    rw [htake]
    have h1 := hq x
    have h2 := scanU_fuel _ _ _ _ _ _ h1 (3 * (q ++ x).length + 3) (by simp; omega)
    simp only [clvmSerLen, Bool.false_eq_true, if_false, h2]
    congr 1; simp; omega

theorem clvmSerLen_trusted (b : Bytes) (n : Nat) (h : clvmSerLen false b = some n) : clvmSerLen true b = some n := by
  obtain ⟨r, v1, v2, hs, rfl⟩ := clvmSerLen_false h
  have h1 := scanU_scanT _ _ _ _ _ _ hs
  simp only [countSexp] at h1
  have l := scanT_len h1
  have h2 := scanT_fuel _ _ _ _ h1 (b.length + 1) (by omega)
  simp [clvmSerLen, h2]

theorem clvmSerLen_pos (tr : Bool) (b : Bytes) (n : Nat) (h : clvmSerLen tr b = some n) : 0 < n := by
  cases tr with
  | true =>
    obtain ⟨r, hs, rfl⟩ := clvmSerLen_true h
    have := scanT_pos hs; omega
  | false =>
    obtain ⟨r, v1, v2, hs, rfl⟩ := clvmSerLen_false h
    have := scanU_pos hs; omega

end ChiaModel.ClvmScan
