import ChiaModel.Lemmas.Cost
/-
The upward companion of `Shift` (Lemmas/Cost.lean): a countdown computation that succeeds from
budget `m` with remainder `m'` succeeds from every larger budget `m + δ` with the same result and
remainder `m' + δ`.
-/
namespace ChiaModel.Cond

/-- `ShiftUp f` : raising the limit of a successful countdown computation by δ raises the remaining
budget by δ and changes nothing else. -/
def ShiftUp {α : Type} (f : Nat → R (α × Nat)) : Prop :=
  ∀ m a m', f m = .ok (a, m') → ∀ δ, f (m + δ) = .ok (a, m' + δ)

theorem shiftUp_pure {α : Type} (a : α) : ShiftUp (fun m => (.ok (a, m) : R (α × Nat))) := by
  intro m a' m' h δ
  injection h with h; injection h with h1 h2; subst h1; subst h2
  rfl

theorem shiftUp_error {α : Type} (e : Err) : ShiftUp (fun _ => (.error e : R (α × Nat))) := by
  intro m a m' h; cases h

theorem shiftUp_charge {α : Type} (a : α) (c : Nat) :
    ShiftUp (fun m => (do let m ← charge m c; pure (a, m) : R (α × Nat))) := by
  intro m a' m' h δ
  simp only [chargeThen_eq] at h ⊢
  by_cases hc : m < c
  · rw [if_pos hc] at h; cases h
  · rw [if_neg hc] at h
    injection h with h; injection h with h1 h2; subst h1; subst h2
    rw [if_neg (by omega)]
    congr 2; omega

/-- sequential composition preserves `ShiftUp` -/
theorem shiftUp_bind {α β : Type} (f : Nat → R (α × Nat)) (g : α → Nat → R (β × Nat))
    (hf : ShiftUp f) (hg : ∀ a, ShiftUp (g a)) :
    ShiftUp (fun m => (do let (a, m) ← f m; g a m : R (β × Nat))) := by
  intro m b m'' h δ
  simp only [bind, Except.bind] at h
  cases hfm : f m with
  | error e => rw [hfm] at h; cases h
  | ok p =>
    obtain ⟨a, m'⟩ := p
    rw [hfm] at h
    simp only at h
    simp only [bind, Except.bind]
    rw [hf m a m' hfm δ]
    exact hg a m' b m'' h δ

theorem shiftUp_addCost (s : CSt) (c : Nat) : ShiftUp (fun m => addCost s m c) := by
  have := shiftUp_charge (bump s c) c
  simpa [addCost] using this

theorem shiftUp_stepCond (env : Env) (s : CSt) (c : Sexp) : ShiftUp (fun m => stepCond env s m c) := by
  unfold stepCond
  cases hf : first c with
  | error e => simpa [bind, Except.bind] using shiftUp_error (α := CSt) e
  | ok opn =>
    simp only [bind, Except.bind]
    cases parseOpcode opn with
    | none =>
      simp only
      split
      · exact shiftUp_error _
      · split
        · exact shiftUp_addCost _ _
        · exact shiftUp_pure s
    | some op =>
      simp only
      apply shiftUp_bind (fun m => addCost s m (preCharge env.flags op))
        (fun s m => do let (s, extra) ← pureCond env s c op; addCost s m extra)
      · exact shiftUp_addCost _ _
      · intro s'
        cases hp : pureCond env s' c op with
        | error e => simpa [bind, Except.bind] using shiftUp_error (α := CSt) e
        | ok p => simpa [bind, Except.bind] using shiftUp_addCost p.1 p.2

theorem shiftUp_condLoop (env : Env) (t : Sexp) : ∀ s, ShiftUp (fun m => condLoop env t s m) := by
  induction t with
  | atom b =>
    intro s
    cases b with
    | nil => simpa [condLoop] using shiftUp_pure s
    | cons x xs => simpa [condLoop] using shiftUp_error (α := CSt) Err.reject
  | pair c nxt _ ih =>
    intro s
    simp only [condLoop]
    exact shiftUp_bind (fun m => stepCond env s m c) (fun s m => condLoop env nxt s m) (shiftUp_stepCond env s c) ih

theorem shiftUp_processSingleSpend (env : Env) (ret : Bundle) (st : PState) (parent ph amount conds : Sexp) (cc : Nat) :
    ShiftUp (fun m => processSingleSpend env ret st parent ph amount conds cc m) := by
  unfold processSingleSpend
  cases spendHeader ret st parent ph amount cc with
  | error e => exact shiftUp_error e
  | ok s0 =>
    simp only
    apply shiftUp_bind (fun m => addCost s0 m (spendCharge env.flags))
      (fun s0 m => do let (s, m) ← condLoop env conds (newSpendVisit env s0) m; return (finishSpend env s, m))
    · exact shiftUp_addCost _ _
    · intro s1
      apply shiftUp_bind (fun m => condLoop env conds (newSpendVisit env s1) m)
        (fun s m => (pure (finishSpend env s, m) : R ((Bundle × PState) × Nat)))
      · exact shiftUp_condLoop env conds _
      · intro s; exact shiftUp_pure _

theorem shiftUp_spendLoop (env : Env) (cc : Nat) (t : Sexp) :
    ∀ ret st n, ShiftUp (fun m => spendLoop env cc t ret st n m) := by
  induction t with
  | atom b =>
    intro ret st n
    cases b with
    | nil => simpa [spendLoop] using shiftUp_pure (ret, st)
    | cons x xs => simpa [spendLoop] using shiftUp_error (α := Bundle × PState) Err.reject
  | pair sp nxt _ ih =>
    intro ret st n
    simp only [spendLoop]
    split
    · exact shiftUp_error _
    · cases parseSingleSpend sp with
      | error e => exact shiftUp_error e
      | ok q =>
        obtain ⟨parent, ph, amount, conds⟩ := q
        simp only
        exact shiftUp_bind (fun m => processSingleSpend env ret st parent ph amount conds cc m)
          (fun p m => spendLoop env cc nxt p.1 p.2 (n - 1) m)
          (shiftUp_processSingleSpend env ret st parent ph amount conds cc) (fun p => ih p.1 p.2 (n - 1))

end ChiaModel.Cond
