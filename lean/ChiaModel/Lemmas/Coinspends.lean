import ChiaModel.Lemmas.FastPaths
import ChiaModel.Lemmas.BundlePath
/-
`get_coinspends_for_trusted_block` (model `getCoinspends`) on a spend list that the native loop accepted
(`Trace`): it succeeds, the recovered coin spends describe the list element by element (`Recovered`), and
the native loop cannot tell the original list from the list `build_generator` makes of the recovered
spends (it reads parent, puzzle and amount of each element only).  The execution-cost offset of the
generator run (the original generator's cost against the quote's 20) is moved with the `BlkRel` bridge to
the bundle loop.
-/
namespace ChiaModel.Gn
open ChiaModel ChiaModel.Cond

/-- `Recovered t css`: the coin spends `css` describe the spend list `t` element by element, in order —
parent id, puzzle reveal, amount (the list holds its canonical atom) and solution are those of the list
element (whatever follows the solution is dropped), the declared puzzle hash is the tree hash of the
reveal, the parent has 32 bytes, the amount is a u64, the recorded lengths are the plain serialised
lengths, and the list ends in nil. -/
def Recovered : Sexp → List CoinSpendM → Prop
  | t, [] => t = .atom []
  | t, cs :: rest => ∃ spend nxt r, t = .pair spend nxt ∧
      extract5 spend = some (.atom cs.parent, cs.puzzle, .atom (canonNat cs.amount), cs.solution, r) ∧
      cs.parent.length = 32 ∧ cs.amount < 2^64 ∧ cs.puzzleHash = Sexp.treeHash cs.puzzle ∧
      cs.puzzleLen = (Sexp.serialize cs.puzzle).length ∧ cs.solutionLen = (Sexp.serialize cs.solution).length ∧
      Recovered nxt rest

theorem serLen_eq : ∀ (x : Sexp), serLen x = (Sexp.serialize x).length
  | .atom b => rfl
  | .pair l r => by
    simp only [serLen, Sexp.serialize, List.length_cons, List.length_append, serLen_eq l, serLen_eq r]
    omega

/-- what identifies the coin of a coin spend / of a validated spend -/
def csKey (cs : CoinSpendM) : Bytes × Bytes × Nat := (cs.parent, cs.puzzleHash, cs.amount)
def spKey (sp : Spend) : Bytes × Bytes × Nat := (sp.parentId, sp.puzzleHash, sp.coinAmount)

theorem extract5_allBytes' {sp a b c d r : Sexp} (h : extract5 sp = some (a, b, c, d, r)) (hb : sp.AllBytes) :
    a.AllBytes ∧ c.AllBytes := extract5_allBytes h hb

/-- **The recovery loop on an accepted list.**  If the native loop accepted the spend list `t` (trace
`news`), its atoms are byte strings and every reveal and solution passes the size test, then
`get_coinspends_for_trusted_block`'s loop succeeds, and its result describes `t` element by element and
names the coins of the validated spends, in order. -/
theorem coinspendsLoop_of_trace (fits : Sexp → Bool) (puz : Nat → RunRes) : ∀ (news : List Spend) (t : Sexp) (i m : Nat),
    Trace puz t i m news → t.AllBytes → revealsFit fits t = true →
    ∃ css, coinspendsLoop fits t = some css ∧ Recovered t css ∧ css.map csKey = news.map spKey := by
  intro news
  induction news with
  | nil =>
    intro t i m h _ _
    simp only [Trace] at h
    subst h
    exact ⟨[], rfl, rfl, rfl⟩
  | cons sp rest ih =>
    intro t i m h hab hfit
    obtain ⟨spend, nxt, puzzle, ab, sol, r, c, conds, m2, rfl, h5, hl, hv, hph, hid, hp, hc, hm2, hscan, htr⟩ := h
    simp only [Sexp.AllBytes] at hab
    obtain ⟨_, hbb⟩ := extract5_allBytes h5 hab.1
    have hcanon : ab = canonNat sp.coinAmount := C11.sanitizeUint_canon ab _ hbb hv
    have hlt : sp.coinAmount < 2 ^ 64 := by
      have := (C11.sanitizeUint_ok ab 8 _ hbb hv).2.2.2
      simpa using this
    simp only [revealsFit, h5, Bool.and_eq_true] at hfit
    obtain ⟨⟨hf1, hf2⟩, hfit'⟩ := hfit
    obtain ⟨css, e1, e2, e3⟩ := ih nxt (i + 1) m2 htr hab.2 hfit'
    have hpa : parseAmount (.atom ab) = .ok sp.coinAmount := by
      simp only [parseAmount, atomOf, bind, Except.bind, hv]
    refine ⟨{ parent := sp.parentId, puzzleHash := Sexp.treeHash puzzle, amount := sp.coinAmount, puzzle := puzzle,
              solution := sol, puzzleLen := serLen puzzle, solutionLen := serLen sol } :: css,
      ?_, ?_, ?_⟩
    · simp only [coinspendsLoop, h5]
      rw [if_neg (by omega), hpa]
      simp only [programOrDefault, hf1, hf2, if_true, e1]
    · refine ⟨spend, nxt, r, rfl, ?_, hl, hlt, rfl, serLen_eq puzzle, serLen_eq sol, e2⟩
      simp only [h5, hcanon]
    · simp only [List.map_cons, e3, csKey, spKey, hph]

/-- the coin spends recovered from a list are well formed in the sense the generator-length prediction and
the bundle path need -/
theorem Recovered.wf : ∀ (css : List CoinSpendM) (t : Sexp), Recovered t css →
    ∀ s ∈ css, (s.parent.length = 32 ∧ s.amount < 2^64 ∧ s.puzzleLen = (Sexp.serialize s.puzzle).length ∧
      s.solutionLen = (Sexp.serialize s.solution).length) ∧ s.puzzleHash = Sexp.treeHash s.puzzle := by
  intro css
  induction css with
  | nil => intro t _ s hs; cases hs
  | cons cs rest ih =>
    intro t h s hs
    obtain ⟨spend, nxt, r, _, _, h1, h2, h3, h4, h5, hrec⟩ := h
    rcases List.mem_cons.mp hs with rfl | hin
    · exact ⟨⟨h1, h2, h4, h5⟩, h3⟩
    · exact ih nxt hrec s hin

/-- **The native loop reads parent, puzzle and amount of each list element only**: it behaves on a spend
list exactly as on the list `build_generator` makes (in the same order) of the coin spends recovered from it. -/
theorem nativeLoop_recovered (env : Env) (puz : Nat → RunRes) : ∀ (css : List CoinSpendM) (t : Sexp), Recovered t css →
    ∀ (i : Nat) (ret : Bundle) (st : PState) (n m : Nat),
    nativeLoop env puz t i ret st n m = nativeLoop env puz (Sexp.ofList (css.map item)) i ret st n m := by
  intro css
  induction css with
  | nil =>
    intro t h i ret st n m
    simp only [Recovered] at h
    subst h
    rfl
  | cons cs rest ih =>
    intro t h i ret st n m
    obtain ⟨spend, nxt, r, rfl, h5, _, _, _, _, _, hrec⟩ := h
    simp only [List.map_cons, ofList_cons, nativeLoop, h5, extract5_item, ih nxt hrec]

/-- two block-side bundles related to the same mempool-side bundle with offsets `k` and `k'` differ in the
execution cost only, by exactly that offset -/
theorem blkRel_two {k k' : Nat} {a a' b : Bundle} (h : BlkRel k a b) (h' : BlkRel k' a' b) :
    ∃ x, a' = { a with executionCost := x } ∧ x + k = a.executionCost + k' := by
  obtain ⟨h1, h2⟩ := h
  obtain ⟨h1', h2'⟩ := h'
  have hs : a'.spends = a.spends := by rw [h1, h1']
  have he : a.executionCost = b.executionCost + k := by rw [h2]
  refine ⟨b.executionCost + k', ?_, by omega⟩
  rw [h2', h2]
  simp only [hs]

/-- **The execution-cost offset does not influence the native loop**: started from two bundles that agree
up to the execution cost, on the list built from coin spends with matching puzzle hashes, the loop gives the
same verdict, parser state and remaining budget, and bundles that again agree up to the execution cost,
with the same offset. -/
theorem nativeLoop_exec_shift (env : Env) (puz : Nat → RunRes) (k k' : Nat) (css : List CoinSpendM) (i : Nat)
    (retN retN' retB : Bundle) (st : PState) (n m : Nat)
    (hph : ∀ s ∈ css, s.puzzleHash = Sexp.treeHash s.puzzle) (hn : css.length ≤ n)
    (hrel : BlkRel k retN retB) (hrel' : BlkRel k' retN' retB)
    {a : Bundle} {s : PState} {m' : Nat}
    (h : nativeLoop (blockEnv env) puz (Sexp.ofList (css.map item)) i retN st n m = .ok ((a, s), m')) :
    ∃ a' b, nativeLoop (blockEnv env) puz (Sexp.ofList (css.map item)) i retN' st n m = .ok ((a', s), m') ∧
      BlkRel k a b ∧ BlkRel k' a' b := by
  have r1 := nativeLoop_bundleLoop env puz k css i retN retB st n m hph hn hrel
  have r2 := nativeLoop_bundleLoop env puz k' css i retN' retB st n m hph hn hrel'
  rw [h] at r1
  cases hB : bundleLoop env puz css i retB st m with
  | error e => rw [hB] at r1; simp only [LoopRel] at r1
  | ok q =>
    obtain ⟨⟨b, sB⟩, mB⟩ := q
    rw [hB] at r1 r2
    simp only [LoopRel] at r1
    obtain ⟨e1, e2, hab⟩ := r1
    subst e1; subst e2
    cases hN : nativeLoop (blockEnv env) puz (Sexp.ofList (css.map item)) i retN' st n m with
    | error e => rw [hN] at r2; simp only [LoopRel] at r2
    | ok q' =>
      obtain ⟨⟨a', s'⟩, m''⟩ := q'
      rw [hN] at r2
      simp only [LoopRel] at r2
      obtain ⟨e1, e2, hab'⟩ := r2
      subst e1; subst e2
      exact ⟨a', b, rfl, hab, hab'⟩

/-- `validOk` does not read the execution cost -/
theorem validOk_blkRel_two (env : Env) {k k' : Nat} {a a' b : Bundle} (h : BlkRel k a b) (h' : BlkRel k' a' b) (st : PState) :
    validOk a' st = validOk a st := by
  rw [validOk_blkRel env h st, validOk_blkRel env h' st]

end ChiaModel.Gn
