import ChiaModel.Lemmas.StreamablePosCodec
/-!
The inductions over `Ty`: `Codec`, `Total`, `Agree` for `decode`.
-/
namespace ChiaModel.Streamable
open ChiaModel

/-- list-level version of `Codec` (fields of a tuple / struct) -/
structure CodecL (d : Bytes → Res (List V × Bytes)) (e : List V → Option Bytes) (w : List V → Bool) : Prop where
  rt : ∀ vs, w vs = true → ∃ bs, e vs = some bs ∧ ∀ r, (d (bs ++ r)).out = .ok (vs, r)
  cn : ∀ b vs r, isBytes b → (d b).out = .ok (vs, r) → ∃ p, e vs = some p ∧ p ++ r = b ∧ w vs = true

structure TotalL (d : Bytes → Res (List V × Bytes)) : Prop where
  np : ∀ b s, (d b).out ≠ .panic s
  pre : ∀ b vs r, (d b).out = .ok (vs, r) → ∃ p, b = p ++ r

def AgreeL (du dt : Bytes → Res (List V × Bytes)) : Prop := ∀ b x, (du b).out = .ok x → (dt b).out = .ok x

theorem decTup_ok {d : Bytes → Res (List V × Bytes)} {b r : Bytes} {v : V} :
    (decTup d b).out = .ok (v, r) ↔ ∃ vs, (d b).out = .ok (vs, r) ∧ v = .tup vs := by
  unfold decTup
  rw [Res.bind_ok]
  constructor
  · rintro ⟨⟨vs, r2⟩, h4, h5⟩
    simp only [Res.pure_out] at h5
    injection h5 with h5; injection h5 with e1 e2; subst e1; subst e2
    exact ⟨vs, h4, rfl⟩
  · rintro ⟨vs, hd, rfl⟩
    exact ⟨(vs, r), hd, rfl⟩

theorem codec_tup {d : Bytes → Res (List V × Bytes)} {e : List V → Option Bytes} {w : List V → Bool}
    (h : CodecL d e w) : Codec (decTup d) (encTup e) (wfTup w) where
  rt := by
    intro v hv
    cases v <;> simp [wfTup] at hv
    rename_i l
    obtain ⟨bs, he, hd⟩ := h.rt l hv
    exact ⟨bs, by simp [encTup, he], fun r => decTup_ok.mpr ⟨l, hd r, rfl⟩⟩
  cn := by
    intro b v r hb hd
    obtain ⟨vs, hd', rfl⟩ := decTup_ok.mp hd
    obtain ⟨p, he, hp, hw⟩ := h.cn b vs r hb hd'
    exact ⟨p, by simp [encTup, he], hp, by simp [wfTup, hw]⟩

theorem total_tup {d : Bytes → Res (List V × Bytes)} (h : TotalL d) : Total (decTup d) where
  np := by
    intro b s hp
    unfold decTup at hp
    rcases Res.bind_panic.mp hp with h3 | ⟨a3, _, h3⟩
    · exact h.np _ _ h3
    · simp at h3
  pre := by
    intro b v r hd
    obtain ⟨vs, hd', _⟩ := decTup_ok.mp hd
    exact h.pre b vs r hd'

theorem agree_tup {d d' : Bytes → Res (List V × Bytes)} (h : AgreeL d d') : Agree (decTup d) (decTup d') := by
  intro b x hx
  obtain ⟨v, r⟩ := x
  obtain ⟨vs, hd, rfl⟩ := decTup_ok.mp hx
  exact decTup_ok.mpr ⟨vs, h b (vs, r) hd, rfl⟩

theorem decodeL_cons_ok {O : Oracles} {tr : Bool} {t : Ty} {ts : List Ty} {b r : Bytes} {l : List V} :
    (decodeL O tr (t :: ts) b).out = .ok (l, r) ↔
      ∃ v r1 l', (decode O tr t b).out = .ok (v, r1) ∧ (decodeL O tr ts r1).out = .ok (l', r) ∧ l = v :: l' := by
  rw [decodeL, Res.bind_ok]
  constructor
  · rintro ⟨⟨v, r1⟩, h1, h2⟩
    obtain ⟨⟨l', r2⟩, h3, h4⟩ := Res.bind_ok.mp h2
    simp only [Res.pure_out] at h4
    injection h4 with h4; injection h4 with e1 e2; subst e1; subst e2
    exact ⟨v, r1, l', h1, h3, rfl⟩
  · rintro ⟨v, r1, l', h1, h3, rfl⟩
    exact ⟨(v, r1), h1, Res.bind_ok.mpr ⟨(l', r), h3, rfl⟩⟩

theorem codecL_nil (O : Oracles) (tr fh : Bool) : CodecL (decodeL O tr []) (encodeLH O fh []) (WFL O tr []) where
  rt := by
    intro vs hv
    cases vs with
    | nil => exact ⟨[], by simp [encodeLH], fun r => by simp [decodeL]⟩
    | cons _ _ => simp [WFL] at hv
  cn := by
    intro b vs r _ hd
    simp only [decodeL, Res.pure_out] at hd
    injection hd with hd; injection hd with e1 e2; subst e1; subst e2
    exact ⟨[], by simp [encodeLH], rfl, by simp [WFL]⟩

theorem codecL_cons (O : Oracles) (tr : Bool) (t : Ty) (ts : List Ty)
    (h1 : Codec (decode O tr t) (encodeH O false t) (WF O tr t))
    (h2 : CodecL (decodeL O tr ts) (encodeLH O false ts) (WFL O tr ts)) :
    CodecL (decodeL O tr (t :: ts)) (encodeLH O false (t :: ts)) (WFL O tr (t :: ts)) where
  rt := by
    intro vs hv
    cases vs with
    | nil => simp [WFL] at hv
    | cons v vs =>
      simp only [WFL, Bool.and_eq_true] at hv
      obtain ⟨b1, he1, hd1⟩ := h1.rt v hv.1
      obtain ⟨b2, he2, hd2⟩ := h2.rt vs hv.2
      refine ⟨b1 ++ b2, by simp [encodeLH, he1, he2], fun r => ?_⟩
      refine decodeL_cons_ok.mpr ⟨v, b2 ++ r, vs, ?_, hd2 r, rfl⟩
      rw [List.append_assoc]; exact hd1 _
  cn := by
    intro b vs r hb hd
    obtain ⟨v, r1, l', hv, hl, rfl⟩ := decodeL_cons_ok.mp hd
    obtain ⟨p1, he1, hp1, hw1⟩ := h1.cn b v r1 hb hv
    obtain ⟨p2, he2, hp2, hw2⟩ := h2.cn r1 l' r (isBytes_of_append_right hp1 hb) hl
    refine ⟨p1 ++ p2, by simp [encodeLH, he1, he2], by rw [List.append_assoc, hp2, hp1], by simp [WFL, hw1, hw2]⟩

theorem totalL_nil (O : Oracles) (tr : Bool) : TotalL (decodeL O tr []) where
  np := by intro b s; simp [decodeL]
  pre := by
    intro b vs r hd
    simp only [decodeL, Res.pure_out] at hd
    injection hd with hd; injection hd with e1 e2; subst e2
    exact ⟨[], rfl⟩

theorem totalL_cons (O : Oracles) (tr : Bool) (t : Ty) (ts : List Ty)
    (h1 : Total (decode O tr t)) (h2 : TotalL (decodeL O tr ts)) : TotalL (decodeL O tr (t :: ts)) where
  np := by
    intro b s hp
    rw [decodeL] at hp
    rcases Res.bind_panic.mp hp with h | ⟨a, _, h⟩
    · exact h1.np _ _ h
    · rcases Res.bind_panic.mp h with h' | ⟨a', _, h'⟩
      · exact h2.np _ _ h'
      · simp at h'
  pre := by
    intro b vs r hd
    obtain ⟨v, r1, l', hv, hl, _⟩ := decodeL_cons_ok.mp hd
    obtain ⟨p1, rfl⟩ := h1.pre b v r1 hv
    obtain ⟨p2, rfl⟩ := h2.pre r1 l' r hl
    exact ⟨p1 ++ p2, by simp⟩

theorem agreeL_cons (O : Oracles) (t : Ty) (ts : List Ty)
    (h1 : Agree (decode O false t) (decode O true t)) (h2 : AgreeL (decodeL O false ts) (decodeL O true ts)) :
    AgreeL (decodeL O false (t :: ts)) (decodeL O true (t :: ts)) := by
  intro b x hx
  obtain ⟨l, r⟩ := x
  obtain ⟨v, r1, l', hv, hl, rfl⟩ := decodeL_cons_ok.mp hx
  exact decodeL_cons_ok.mpr ⟨v, r1, l', h1 b (v, r1) hv, h2 r1 (l', r) hl, rfl⟩

mutual
theorem codec_decode (O : Oracles) (hO : OracleContract O) (tr : Bool) :
    ∀ t : Ty, Codec (decode O tr t) (encodeH O false t) (WF O tr t)
  | .uint n => by simp only [decode, encodeH, WF]; exact codec_uint n
  | .sint n => by simp only [decode, encodeH, WF]; exact codec_sint n
  | .bool => by simp only [decode, encodeH, WF]; exact codec_bool
  | .unit => by simp only [decode, encodeH, WF]; exact codec_unit
  | .bytes => by simp only [decode, encodeH, WF]; exact codec_bytes
  | .bytesN n => by simp only [decode, encodeH, WF]; exact codec_bytesN n
  | .str => by simp only [decode, encodeH, WF]; exact codec_str
  | .option t => by simp only [decode, encodeH, WF]; exact codec_option (codec_decode O hO tr t)
  | .vec t => by simp only [decode, encodeH, WF]; exact codec_vec _ (codec_decode O hO tr t)
  | .tuple ts => by simp only [decode, encodeH, WF]; exact codec_tup (codecL_decode O hO tr ts)
  | .array n t => by simp only [decode, encodeH, WF]; exact codec_array n (codec_decode O hO tr t)
  | .struct _ _ ts => by simp only [decode, encodeH, WF]; exact codec_tup (codecL_decode O hO tr ts)
  | .enum8 _ vals => by simp only [decode, encodeH, WF]; exact codec_enum vals
  | .program => by simp only [decode, encodeH, WF]; exact codec_program O hO tr
  | .g1 => by simp only [decode, encodeH, WF]; exact codec_g1 O tr
  | .g2 => by simp only [decode, encodeH, WF]; exact codec_g2 O tr
  | .gt => by simp only [decode, encodeH, WF]; exact codec_opaque _ _ _
  | .secretKey => by simp only [decode, encodeH, WF]; exact codec_opaque _ _ _
  | .optpair t u => by
      simp only [decode, encodeH, WF]; exact codec_optpair (codec_decode O hO tr t) (codec_decode O hO tr u)
  | .genTail _ => by simp only [decode, encodeH, WF]; exact codec_gentail O hO tr
  | .proofOfSpace => by simp only [decode, encodeH, WF]; exact codec_pos O tr
theorem codecL_decode (O : Oracles) (hO : OracleContract O) (tr : Bool) :
    ∀ ts : List Ty, CodecL (decodeL O tr ts) (encodeLH O false ts) (WFL O tr ts)
  | [] => codecL_nil O tr false
  | t :: ts => codecL_cons O tr t ts (codec_decode O hO tr t) (codecL_decode O hO tr ts)
end

mutual
theorem total_decode (O : Oracles) (tr : Bool) : ∀ t : Ty, Total (decode O tr t)
  | .uint n => by simp only [decode]; exact total_uint n
  | .sint n => by simp only [decode]; exact total_sint n
  | .bool => by simp only [decode]; exact total_bool
  | .unit => by simp only [decode]; exact total_unit
  | .bytes => by simp only [decode]; exact total_bytes
  | .bytesN n => by simp only [decode]; exact total_bytesN n
  | .str => by simp only [decode]; exact total_str
  | .option t => by simp only [decode]; exact total_option (total_decode O tr t)
  | .vec t => by simp only [decode]; exact total_vec _ (total_decode O tr t)
  | .tuple ts => by simp only [decode]; exact total_tup (totalL_decode O tr ts)
  | .array n t => by simp only [decode]; exact total_array n (total_decode O tr t)
  | .struct _ _ ts => by simp only [decode]; exact total_tup (totalL_decode O tr ts)
  | .enum8 _ vals => by simp only [decode]; exact total_enum vals
  | .program => by simp only [decode]; exact total_program O tr
  | .g1 => by simp only [decode]; exact total_g1 O tr
  | .g2 => by simp only [decode]; exact total_g2 O tr
  | .gt => by simp only [decode]; exact total_opaque _ _ _
  | .secretKey => by simp only [decode]; exact total_opaque _ _ _
  | .optpair t u => by simp only [decode]; exact total_optpair (total_decode O tr t) (total_decode O tr u)
  | .genTail _ => by simp only [decode]; exact total_gentail O tr
  | .proofOfSpace => by simp only [decode]; exact total_pos O tr
theorem totalL_decode (O : Oracles) (tr : Bool) : ∀ ts : List Ty, TotalL (decodeL O tr ts)
  | [] => totalL_nil O tr
  | t :: ts => totalL_cons O tr t ts (total_decode O tr t) (totalL_decode O tr ts)
end

mutual
theorem agree_decode (O : Oracles) (hO : OracleContract O) : ∀ t : Ty, Agree (decode O false t) (decode O true t)
  | .uint _ => by simp only [decode]; exact Agree.refl _
  | .sint _ => by simp only [decode]; exact Agree.refl _
  | .bool => by simp only [decode]; exact Agree.refl _
  | .unit => by simp only [decode]; exact Agree.refl _
  | .bytes => by simp only [decode]; exact Agree.refl _
  | .bytesN _ => by simp only [decode]; exact Agree.refl _
  | .str => by simp only [decode]; exact Agree.refl _
  | .option t => by simp only [decode]; exact agree_option (agree_decode O hO t)
  | .vec t => by simp only [decode]; exact agree_vec _ (agree_decode O hO t)
  | .tuple ts => by simp only [decode]; exact agree_tup (agreeL_decode O hO ts)
  | .array n t => by simp only [decode]; exact agree_array n (agree_decode O hO t)
  | .struct _ _ ts => by simp only [decode]; exact agree_tup (agreeL_decode O hO ts)
  | .enum8 _ _ => by simp only [decode]; exact Agree.refl _
  | .program => by simp only [decode]; exact agree_program O hO
  | .g1 => by simp only [decode]; exact agree_g1 O
  | .g2 => by simp only [decode]; exact agree_g2 O
  | .gt => by simp only [decode]; exact Agree.refl _
  | .secretKey => by simp only [decode]; exact Agree.refl _
  | .optpair t u => by simp only [decode]; exact agree_optpair (agree_decode O hO t) (agree_decode O hO u)
  | .genTail _ => by simp only [decode]; exact agree_gentail O hO
  | .proofOfSpace => by simp only [decode]; exact agree_pos O
theorem agreeL_decode (O : Oracles) (hO : OracleContract O) :
    ∀ ts : List Ty, AgreeL (decodeL O false ts) (decodeL O true ts)
  | [] => fun _ _ h => h
  | t :: ts => agreeL_cons O t ts (agree_decode O hO t) (agreeL_decode O hO ts)
end

end ChiaModel.Streamable
