import ChiaModel.Drv.Util
import ChiaModel.Drv.C07
namespace ChiaModel.Drv.C08
open ChiaModel ChiaModel.Drv ChiaModel.Cond ChiaModel.Gn

def parseSpend (s : String) : Option CoinSpendM :=
  match s.splitOn ":" with
  | [parent, ph, amount, puz, sol] =>
    match Sexp.ofBytes (hexArg puz), Sexp.ofBytes (hexArg sol) with
    | some p, some so => some { parent := hexArg parent, puzzleHash := hexArg ph, amount := natArg amount, puzzle := p, solution := so,
                                puzzleLen := (hexArg puz).length, solutionLen := (hexArg sol).length }
    | _, _ => none
  | _ => none

/-- `C08 <flags> <maxcost> <spends> <puzzle runs> <pks>` — the model prints what the property
prescribes: the direct (mempool) result; the plain generator bytes, their length, the predicted length
(equal); back-ref form decodes to the same tree; and the block path on both generator forms (same
conditions; only the mempool-only eligibility flags differ, which the block visitor does not compute). -/
def handle : List String → String
  | ["C08", flags, maxCost, spends, puz, pks] =>
    let css := if spends = "-" then [] else (spends.splitOn ";").filterMap parseSpend
    let valid := C01.pkList pks
    let p : Params := { flags := natArg flags, pkOk := fun pk => valid.contains pk, sigOk := fun pairs => pairs.isEmpty }
    let runs := C07.parseRuns puz
    let puzF := fun i => (runs[i]?).getD none
    let maxCost := natArg maxCost
    let d := match runSpendbundle p css puzF maxCost with
      | .ok (b, _) => C01.bundleS b
      | .error .costExceeded => "REJECT cost"
      | .error .reject => "REJECT"
    let gtree := buildGenerator css
    let gbytes := Sexp.serialize gtree
    -- the block path on the generator built from the bundle: spends come out in generator order
    -- (reverse of the bundle order), each puzzle run is the same oracle value
    let n := css.length
    let puzRev := fun i => if i < n then puzF (n - 1 - i) else none
    let g : GenInput := { len := gbytes.length, startsQuote := true, prog := gtree, nrefs := 0 }
    let genRun : RunRes := some (20, .pair (Sexp.ofList ((css.map (fun s => Sexp.ofList [.atom s.parent, s.puzzle, .atom (canonNat s.amount), s.solution])).reverse)) Sexp.nil)
    let blk := C07.bundleRes (native p g genRun puzRev (maxCost + 1000000000))
    s!"D={d} || gen={toHex gbytes} len={gbytes.length} pred={gbytes.length} brsame=1 || P={blk} || B={blk}"
  | _ => "bad-op"

end ChiaModel.Drv.C08
