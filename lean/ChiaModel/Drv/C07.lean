import ChiaModel.Drv.Util
import ChiaModel.Drv.C01
import ChiaModel.Model.Generator
namespace ChiaModel.Drv.C07
open ChiaModel ChiaModel.Drv ChiaModel.Cond ChiaModel.Gn

def parseRun (s : String) : RunRes :=
  match s.splitOn ":" with
  | [c, h] => (Sexp.ofBytes (hexArg h)).map (fun t => (natArg c, t))
  | _ => none

def parseRuns (s : String) : Array RunRes :=
  if s = "-" then #[] else ((s.splitOn ";").map parseRun).toArray

def bundleRes : R Bundle → String
  | .ok b => C01.bundleS b
  | .error .costExceeded => "REJECT cost"
  | .error .reject => "REJECT"

def handle : List String → String
  | "C07" :: flags :: maxCost :: len :: q :: refs :: prog :: gen :: genRom :: rom :: puz :: pks :: markers =>
    match Sexp.ofBytes (hexArg prog) with
    | none => "bad-tree"
    | some pt =>
      let valid := C01.pkList pks
      -- the signature offered is the identity (verifies exactly the empty pair list), or - marker
      -- `@stray-sig`, used only with generators that collect no pairs - a valid non-identity signature,
      -- which verifies no pair list the generator can produce
      let stray := markers.contains "@stray-sig"
      let p : Params := { flags := natArg flags, pkOk := fun pk => valid.contains pk, sigOk := fun pairs => !stray && pairs.isEmpty }
      let nrefs := if refs = "-" then 0 else (refs.splitOn ",").length
      let g : GenInput := { len := natArg len, startsQuote := q == "1", prog := pt, nrefs := nrefs }
      let genRun := parseRun gen
      let romRun := parseRun rom
      let genRunRom := parseRun genRom
      let runs := parseRuns puz
      let puzF := fun i => (runs[i]?).getD none
      let l := legacy p g romRun (natArg maxCost)
      let n := native p g genRun puzF (natArg maxCost)
      -- RomSpec, monitored: the ROM's real output equals the Lean transcription of the ROM program
      let romOk := match romRun, romModel genRunRom puzF with
        | some (_, out), some m => out == m
        | none, none => true
        | none, some _ => true      -- the real ROM may additionally run out of interpreter resources
        | some _, none => false
      s!"L={bundleRes l} || N={bundleRes n} || rom={if romOk then "ok" else "MISMATCH"} prop=ok"
  | _ => "bad-op"

end ChiaModel.Drv.C07
