import ChiaModel.Drv.Util
import ChiaModel.Drv.C01
import ChiaModel.Model.AggSig
namespace ChiaModel.Drv.C05
open ChiaModel ChiaModel.Drv ChiaModel.Cond ChiaModel.Sig

def parsePairs (s : String) : List (Bytes × Bytes) :=
  if s = "-" then [] else
  (s.splitOn ",").filterMap (fun e => match e.splitOn ":" with
    | [pk, m] => some (hexArg pk, hexArg m)
    | _ => none)

def insertSorted (x : String) : List String → List String
  | [] => [x]
  | y :: t => if x ≤ y then x :: y :: t else y :: insertSorted x t

/-- canonical multiset representation -/
def canonPairs (l : List (Bytes × Bytes)) : List String :=
  (l.map (fun p => toHex p.1 ++ ":" ++ toHex p.2)).foldr insertSorted []

/-- Ideal BLS: the aggregate of signatures by keys over texts verifies for a pair list exactly when
the two multisets of (key, text) coincide (`!junk` = a signature that is no such aggregate). -/
def idealVerify (signed : String) (pairs : List (Bytes × Bytes)) : Bool :=
  if signed = "!junk" then false else canonPairs pairs == canonPairs (parsePairs signed)

def handle : List String → String
  | ["C05", "sig", flags, pks, signed, tree] =>
    match Sexp.ofBytes (hexArg tree) with
    | none => "bad-tree"
    | some t =>
      let valid := C01.pkList pks
      let env : Env := { flags := natArg flags, mempool := false, pkOk := fun pk => valid.contains pk }
      let v := match parseSpends env (idealVerify signed) t 11000000000 0 with
        | .ok _ => "OK"
        | .error _ => "REJECT"
      -- the property: the verdict is the same without a cache, with a cold and a warm cache, and in
      -- the mempool pre-validation path
      s!"plain={v} cold={v} warm={v} mempool={v}"
  | ["C05", "fm", op, msg, parent, ph, amount] =>
    let (op, msg, parent, ph, amount) := (natArg op, hexArg msg, hexArg parent, hexArg ph, natArg amount)
    -- the prescribed text (Props/C05 proves the model of make_aggsig_final_message equal to it)
    let id := sha256 (parent ++ ph ++ canonNat amount)
    hexOrDash (msg ++ specSuffix op parent ph id amount)
  | _ => "bad-op"

end ChiaModel.Drv.C05
