import ChiaModel.Drv.Util
import ChiaModel.Model.BlsCache
/-
C15 driver.  One line = one whole history on one cache:

  C15 <h|hm> <cap> <keymap> <ops> <threads> <sched> [@infkey]

  keymap  : `seed:pkhex,seed:pkhex,…` (seed 0 = the infinity key) or `-`
  ops     : `;`-separated sequential prefix, `-` if none
              av:<pairs>:<sig>   BlsCache::aggregate_verify (+ all other verifiers on the same input)
              upd:<pairs>        BlsCache::update with the true pairing of each pair
              ev:<pairs>         BlsCache::evict
              len                BlsCache::len / is_empty
  pairs   : `,`-separated `<seed>.<msghex>` (empty message: `<seed>.`), `_` = empty list
  sig     : `0` (Signature::default()), `off` (a point outside G2), or `+`-separated terms
            `<seed>.<msghex>` (= sign(sk_seed, msg)) and `junk` (= hash_to_g2("junk"))
  threads : `|`-separated ops executed concurrently after the prefix, `-` if none
  sched   : digits, the order in which the threads win the cache lock; `-` if none

The cache verdict `c=` is the MODEL's own answer: what `runHistory` / `runAll` return for the
`BlsCache::aggregate_verify` call (thread model with the `invalid_key` flag of the repair 601e785b);
`Props/C15.lean` proves it equal to the prescription (`cache_agrees_with_plain(_sched)`, `inf_full`).
`a`/`v` are the prescription (`specVerdict`, = the model's `aggregateVerify`/`verify` by
`aggregateVerify_spec`/`verify_spec`), `len`/`items` are the model's.
Mode `hm` (the harness still emits every history with an infinity key in an `av` a second time in
this mode): the cache verdict of an `av` whose list has an infinity key is printed as `*` on both
sides, everything else of such a history is compared.  In mode `h` nothing is masked.
-/
namespace ChiaModel.Drv.C15
open ChiaModel ChiaModel.Drv ChiaModel.Bls

/-- ideal scalar of the key made from seed `s` (0 = infinity); powers of a large number so that
no small integer relation holds between different keys -/
def skOf (s : Nat) : Int := if s = 0 then 0 else (1000003 : Int) ^ s

def junkBytes : Bytes := [0x6a, 0x75, 0x6e, 0x6b]

abbrev KeyMap := List (Nat × Bytes)

def parseKeyMap (s : String) : KeyMap :=
  if s = "-" then [] else
  (s.splitOn ",").filterMap (fun e =>
    match e.splitOn ":" with
    | [a, b] => some (natArg a, hexArg b)
    | _ => none)

def parsePair (km : KeyMap) (tok : String) : Pair :=
  match tok.splitOn "." with
  | [a, b] =>
    let seed := natArg a
    { pk := skOf seed, pkb := (km.lookup seed).getD [], msg := (ofHexChars b.toList).getD [] }
  | _ => { pk := 0, pkb := [], msg := [] }

def parsePairs (km : KeyMap) (s : String) : List Pair :=
  if s = "_" then [] else (s.splitOn ",").map (parsePair km)

def parseSig (km : KeyMap) (s : String) : Sig :=
  if s = "0" then Sig.zero
  else if s = "off" then { off := true }
  else aggregate ((s.splitOn "+").map (fun t =>
    if t = "junk" then hashToG2 junkBytes else (parsePair km t).sign))

inductive POp where
  | av (ps : List Pair) (sig : Sig)
  | upd (ps : List Pair)
  | ev (ps : List Pair)
  | len
  | bad

def parseOp (km : KeyMap) (s : String) : POp :=
  match s.splitOn ":" with
  | ["av", ps, sg] => .av (parsePairs km ps) (parseSig km sg)
  | ["upd", ps] => .upd (parsePairs km ps)
  | ["ev", ps] => .ev (parsePairs km ps)
  | ["len"] => .len
  | _ => .bad

def POp.toOp : POp → Op
  | .av ps sig => .av ps sig
  | .upd ps => .upd (ps.map (fun p => (p.aug, p.pairing)))   -- truthful updates
  | .ev ps => .evict ps
  | .len => .len
  | .bad => .len

def tf (b : Bool) : String := if b then "T" else "F"

def hasInf (ps : List Pair) : Bool := ps.any Pair.isInf

/-- the verdict of a finished `aggregate_verify` call of the thread model -/
def cacheVerdictStr : Option Out → String
  | some (.verdict b) => tf b
  | _ => "unfinished"

/-- the verdicts for one input, for every path; `cv` is what the model's cache-assisted call
returned -/
def verdicts (masked : Bool) (ps : List Pair) (sig : Sig) (cv : Option Out) : String :=
  let spec := specVerdict sig ps
  let inf := hasInf ps
  let c := if masked && inf then "*" else cacheVerdictStr cv
  let v := match ps with
    | [_] => tf spec
    | _ => "-"
  -- precomputed pairings: prescribed only without an infinity key; otherwise the model's value
  let g := if inf then aggregateVerifyGt sig (ps.map Pair.pairing) else spec
  -- aggregate_pairing with `(−g, sig)`: compared only without an infinity key (with one, blst runs a
  -- Miller loop on the all-zero affine point; the property does not speak about this function there)
  let p := if inf then "-" else tf (aggregatePairing (pairingArgs sig ps))
  s!"c={c},a={tf spec},v={v},g={tf g},p={p}"

def keyTag (k : Bytes) : String := toHex (k.take 4)

def itemsStr (c : Cache) : String :=
  if c.items.isEmpty then "-" else ",".intercalate (c.items.map (fun e => keyTag e.1))

structure Acc where
  inf : Bool := false       -- some `av` has an infinity key
  yes : Bool := false       -- some cache-assisted call of the model returned true
  no : Bool := false        -- … returned false

def note (a : Acc) (ps : List Pair) (modelVerdict : Bool) : Acc :=
  { inf := a.inf || hasInf ps,
    yes := a.yes || modelVerdict,
    no := a.no || !modelVerdict }

def seqOut (masked : Bool) (op : POp) (r : Option Out × Nat) : String :=
  match op with
  | .av ps sig => s!"{verdicts masked ps sig r.1},n={r.2}"
  | .len => s!"n={r.2},e={tf (r.2 == 0)}"
  | .bad => "bad-op"
  | _ => s!"n={r.2}"

def noteOp (a : Acc) (op : POp) (o : Option Out) : Acc :=
  match op with
  | .av ps _ => note a ps (match o with | some (.verdict b) => b | _ => false)
  | _ => a

/-- the finitely many pairs a line uses must not collide on their cache keys (`CollisionFree`, the
hypothesis of the transparency theorems; checked on every line) -/
def collisionFree (u : List Pair) : Bool :=
  u.all (fun p => u.all (fun q => !(p.key == q.key) || (p.pairing == q.pairing)))

def opPairs : POp → List Pair
  | .av ps _ => ps
  | .upd ps => ps
  | .ev ps => ps
  | _ => []

def threadOut (masked : Bool) (op : POp) (t : Option Thread) : String :=
  match op with
  | .av ps sig => verdicts masked ps sig (t.bind Thread.out)
  | .len =>
    match t.bind Thread.out with
    | some (.len n) => s!"n={n}"
    | _ => "unfinished"
  | .bad => "bad-op"
  | _ =>
    match t.bind Thread.out with
    | some _ => "ok"
    | none => "unfinished"

def joinOr (sep : String) (l : List String) : String := if l.isEmpty then "-" else sep.intercalate l

def runLine (masked : Bool) (cap : Nat) (ops threads : List POp) (sched : List Nat) : String :=
  match Cache.new cap with
  | none => "nocache"
  | some c0 =>
    let h := runHistory c0 (ops.map POp.toOp)
    let outs := (ops.zip h.2).map (fun x => seqOut masked x.1 x.2)
    let a := (ops.zip h.2).foldl (fun a x => noteOp a x.1 x.2.1) {}
    let w := runAll { cache := h.1, threads := threads.map (fun o => Thread.start o.toOp) } sched
    let a := (threads.zip w.threads).foldl (fun a x => noteOp a x.1 x.2.out) a
    let touts := (List.range threads.length).map (fun i => threadOut masked (threads.getD i .bad) w.threads[i]?)
    let c := w.cache
    let full := h.2.any (fun r => r.2 == cap) || c.len == cap
    let u := ((ops ++ threads).map opPairs).flatten.eraseDups
    let tag := (if a.inf then "inf" else "noinf")
      ++ (if full then "+full" else "") ++ (if threads.isEmpty then "" else "+conc")
      ++ (if a.yes then "+T" else "") ++ (if a.no then "+F" else "")
      ++ (if collisionFree u then "" else "+KEY-COLLISION")
    s!"{joinOr ";" outs} / {joinOr "|" touts} / n={c.len},items={itemsStr c} #{tag}"

def parseOps (km : KeyMap) (sep : String) (s : String) : List POp :=
  if s = "-" then [] else (s.splitOn sep).map (parseOp km)

def parseSched (s : String) : List Nat :=
  if s = "-" then [] else s.toList.map (fun ch => ch.toNat - 48)

def handle : List String → String
  | "C15" :: mode :: cap :: km :: ops :: threads :: sched :: _ =>
    if mode = "h" ∨ mode = "hm" then
      let km := parseKeyMap km
      runLine (mode = "hm") (natArg cap) (parseOps km ";" ops) (parseOps km "|" threads) (parseSched sched)
    else "bad-op"
  | _ => "bad-op"

end ChiaModel.Drv.C15
