import ChiaModel.Drv.Util
import ChiaModel.Model.Ints
namespace ChiaModel.Drv.C11
open ChiaModel ChiaModel.Drv

def parent : Bytes := List.replicate 32 0x61
def ph : Bytes := List.replicate 32 0x31

/-- value of a `len`-byte two's-complement / unsigned result of `decode_number` -/
def typedValue (signed : Bool) (b : Bytes) : Int :=
  if signed then intOfBytes b else (beVal b : Int)

def fromClvm (bits : Nat) (signed : Bool) (buf : Bytes) : String :=
  match decodeNumber (bits / 8) signed buf with
  | none => "none"
  | some r => toString (if bits / 8 = 0 then 0 else typedValue signed r)

def handle : List String → String
  | ["C11", "u64", v] =>
    let v := natArg v
    -- what the property prescribes: the canonical form everywhere, and its serialised length.
    -- (`Gen.u64ToBytes`/`Gen.coinIdAmount`/`Gen.clvmBytesLen`, regenerated from the source, are proved
    -- equal to these in Props/C11; the `gen` columns let the check locate a failing amount when
    -- that proof no longer closes.)
    let c := canonNat v
    let id := sha256 (parent ++ ph ++ c)
    let total := 5 + 39 + 1 + (Sexp.serialize (.atom c)).length + 1
    s!"{hexOrDash c} {toHex id} {total} {hexOrDash c} {hexOrDash c} {fromClvm 64 false c}"
  | ["C11", "gen", v] =>
    let v := natArg v
    let c := canonNat v
    let ok := Gen.u64ToBytes v == c && Gen.coinIdAmount v == c
      && Gen.genLenBase + Gen.genLenPerSpend + Gen.clvmBytesLen v == 5 + 39 + (Sexp.serialize (.atom c)).length
    if ok then "ok" else "gen-differs-from-spec"
  | ["C11", "enc", s, neg] => hexOrDash (encodeNumber (hexArg s) (neg == "1"))
  | ["C11", "dec", len, signed, s] => optHex (decodeNumber (natArg len) (signed == "1") (hexArg s))
  | ["C11", "san", max, s] =>
    match sanitizeUint (hexArg s) (natArg max) with
    | .ok v => s!"ok {v}"
    | .posOverflow => "pos"
    | .negOverflow => "neg"
    | .err => "err"
  | ["C11", "int", bits, signed, x] =>
    let x := intArg x
    let b := canonInt x
    s!"{hexOrDash b} {fromClvm (natArg bits) (signed == "1") b}"
  | ["C11", "from", bits, signed, s] => fromClvm (natArg bits) (signed == "1") (hexArg s)
  | _ => "bad-op"

end ChiaModel.Drv.C11
