import ChiaModel.Drv.Util
import ChiaModel.Drv.C01
import ChiaModel.Model.Generator
import ChiaModel.Model.Mempool
namespace ChiaModel.Drv.C19
open ChiaModel ChiaModel.Drv ChiaModel.Cond ChiaModel.Gn ChiaModel.Mp

def parseCoin (s : String) : Option CoinM :=
  match s.splitOn ":" with
  | [p, h, a] => some ⟨hexArg p, hexArg h, natArg a⟩
  | _ => none

/-- the consensus part of `MEMPOOL_MODE | DONT_VALIDATE_SIGNATURE | COMPUTE_FINGERPRINT` -/
def mempoolFlags : Nat :=
  Gen.flagNoUnknownConds + Gen.flagStrictArgsCount + Gen.flagLimitSpends + Gen.flagDontValidateSignature + Gen.flagComputeFingerprint

/-- cost fields that depend on the serialised size / interpreter are not part of "the parsed conditions" -/
def zeroCosts (b : Bundle) : Bundle :=
  { b with cost := 0, executionCost := 0, spends := b.spends.map (fun s => { s with executionCost := 0 }) }

/-- one spend of the coin `(parent, hash of the identity puzzle, amount)` whose puzzle `1` returns the
solution `conds`: fingerprint (when the spend is dedup-eligible) and the conditions summary -/
def fppRun (parent : Bytes) (amount : Nat) (valid : List Bytes) (condsHex : String) : String :=
  match Sexp.ofBytes (hexArg condsHex) with
  | none => "- bad-tree"
  | some conds =>
    let idp : Sexp := .atom [1]
    let cs : CoinSpendM := { parent := parent, puzzleHash := Sexp.treeHash idp, amount := amount, puzzle := idp, solution := conds,
                             puzzleLen := 1, solutionLen := (hexArg condsHex).length }
    let p : Params := { flags := mempoolFlags, pkOk := fun pk => valid.contains pk, sigOk := fun _ => true }
    match runSpendbundle p [cs] (fun i => if i = 0 then some (0, conds) else none) 11000000000 with
    | .ok (b, _) =>
      let elig : Bool := match b.spends with | s :: _ => decide (s.flags &&& ELIGIBLE_FOR_DEDUP ≠ 0) | [] => false
      if elig then
        match fingerprint conds with
        | some h => s!"{toHex h} {C01.bundleS (zeroCosts b)}"
        | none => "- REJECT"
      else s!"- {C01.bundleS (zeroCosts b)}"
    | .error .costExceeded => "- REJECT cost"
    | .error .reject => "- REJECT"

def boolsS (l : List Bool) : String := "[" ++ ",".intercalate (l.map (fun b => if b then "1" else "0")) ++ "]"

/-- the model prints what the property prescribes; see harness/src/mempool.rs for the case kinds -/
def handle : List String → String
  | ["C19", "mh", pz] =>
    match Sexp.ofBytes (hexArg pz) with
    | some t => s!"{toHex singletonModHash} {toHex (Sexp.treeHash t)}"
    | none => "bad-tree"
  | "C19" :: "ff" :: oc :: nc :: np :: pz :: sol :: _markers =>
    match parseCoin oc, parseCoin nc, parseCoin np, Sexp.ofBytes (hexArg pz), Sexp.ofBytes (hexArg sol) with
    | some c, some n, some q, some p, some s =>
      (match fastForward p s c n q with
       | .ok s' => s!"ok {toHex (Sexp.serialize s')} prop=ok #ok"
       | .error e => s!"refused prop=ok #{e.name}")
    | _, _, _, _, _ => "bad-tree"
  | ["C19", "fp", t] =>
    match Sexp.ofBytes (hexArg t) with
    | none => "bad-tree"
    | some c => (match fingerprint c with | some h => toHex h | none => "ERR")
  | ["C19", "fpp", _kind, parent, amount, c1, c2, pks] =>
    let valid := C01.pkList pks
    s!"A={fppRun (hexArg parent) (natArg amount) valid c1} || B={fppRun (hexArg parent) (natArg amount) valid c2} || prop=ok"
  | ["C19", "dd", flags, pks, tree] =>
    match Sexp.ofBytes (hexArg tree) with
    | none => "bad-tree"
    | some t =>
      let valid := C01.pkList pks
      let env : Env := { flags := natArg flags, mempool := true, pkOk := fun pk => valid.contains pk }
      (match parseSpends env (fun pairs => pairs.isEmpty) t 11000000000 0 with
       | .ok (b, _) =>
         let spec := dedupOfOutput env.flags t
         let got := b.spends.map (fun s => decide (s.flags &&& ELIGIBLE_FOR_DEDUP ≠ 0))
         if got = spec then s!"OK dd={boolsS spec} prop=ok" else s!"OK dd={boolsS spec} prop=ok MODEL-FLAG={boolsS got}"
       | .error _ => "REJECT")
  | _ => "bad-op"

end ChiaModel.Drv.C19
