import ChiaModel.Drv.Util
import ChiaModel.Model.Builders
namespace ChiaModel.Drv.C10
open ChiaModel ChiaModel.Drv ChiaModel.Bld

/-- `parent.puzzlehex.amount.solutionhex`; `none` = a reveal does not deserialize -/
def parseSpend (s : String) : Option Spend :=
  match s.splitOn "." with
  | [parent, puz, amount, sol] =>
    match Sexp.ofBytes (hexArg puz), Sexp.ofBytes (hexArg sol) with
    | some p, some so => some { parent := hexArg parent, puzzle := p, amount := natArg amount, solution := so }
    | _, _ => none
  | _ => none

/-- `tag/spend,spend,…` (a dash in place of the spends = a bundle without spends); the flag says whether all reveals decode -/
def parseBundle (s : String) : SBundle × Bool :=
  match s.splitOn "/" with
  | [tag, spends] =>
    let l := if spends = "-" then [] else (spends.splitOn ",").map parseSpend
    ({ spends := l.filterMap id, sigTag := natArg tag }, l.all Option.isSome)
  | _ => ({ spends := [], sigTag := 0 }, false)

/-- `a;cost;sizeAfter;sizeRestored;bundles` -/
def parseAdd (s : String) : Option Add :=
  match s.splitOn ";" with
  | ["a", cost, sa, sr, bundles] =>
    let bs := if bundles = "-" then [] else (bundles.splitOn "|").map parseBundle
    some { bundles := bs.map (·.1), cost := natArg cost, bad := !(bs.all (·.2)), sizeAfter := natArg sa, sizeRestored := natArg sr }
  | _ => none

def resS (r : Res) (cost : Nat) : String :=
  match r with
  | .ok a d => s!"{if a then 1 else 0},{if d then 1 else 0},{cost}"
  | .err => s!"E,{cost}"

def finS (truthful : Bool) (r : Option (Sexp × List Nat × Nat)) : String :=
  match r with
  | none => "fin PANIC prop=ok"
  | some (tree, _sig, cost) =>
    -- the property prescribes: the signature is the aggregate of the accepted ones, the cost is what
    -- consensus charges (for truthful declared costs), the decoded spends are the accepted ones, a
    -- history without its rejected attempts gives the same output, the serializer contract held
    s!"fin tree={toHex (Sexp.serialize tree)} sig=equal cost={cost} consensus={if truthful then toString cost else "-"} spends=same rej=same ser=ok prop=ok"

structure Tags where
  acc : Bool := false
  r1 : Bool := false
  r2 : Bool := false
  r3 : Bool := false
  err : Bool := false
  exact : Bool := false

def Tags.str (t : Tags) (panic : Bool) : String :=
  let l := (if t.acc then ["A"] else []) ++ (if t.r1 then ["R1"] else []) ++ (if t.r2 then ["R2"] else []) ++
    (if t.r3 then ["R3"] else []) ++ (if t.err then ["E"] else []) ++ (if t.exact then ["X"] else []) ++ (if panic then ["P"] else [])
  if l.isEmpty then "empty" else ".".intercalate l

def runI (s : ISt) (ops : List Add) (outs : List String) (t : Tags) : ISt × List String × Tags :=
  match ops with
  | [] => (s, outs.reverse, t)
  | op :: rest =>
    let (s', r) := s.step op
    let t := match r with
      | .ok true _ => { t with acc := true, exact := t.exact || s'.cost == s.maxCost }
      | .ok false _ =>
        if wadd (wadd (wadd s.byteCost s.wrapperCost) s.blockCost) minCostThreshold > s.maxCost then { t with r1 := true }
        else if wadd (wadd (wadd s.byteCost s.wrapperCost) s.blockCost) op.cost > s.maxCost then { t with r2 := true }
        else { t with r3 := true }
      | .err => { t with err := true }
    runI s' rest (resS r s'.cost :: outs) t

def runC (s : CSt) (ops : List Add) (outs : List String) (t : Tags) (serOk : Bool) : CSt × List String × Tags × Bool :=
  match ops with
  | [] => (s, outs.reverse, t, serOk)
  | op :: rest =>
    let (s', r) := s.step op
    let reached := !(wadd (wadd s.byteCost s.blockCost) minCostThreshold > s.maxCost) && !(wadd (wadd s.byteCost s.blockCost) op.cost > s.maxCost) && !op.bad
    let t := match r with
      | .ok true _ => { t with acc := true, exact := t.exact || s'.cost == s.maxCost }
      | .ok false _ =>
        if wadd (wadd s.byteCost s.blockCost) minCostThreshold > s.maxCost then { t with r1 := true }
        else if wadd (wadd s.byteCost s.blockCost) op.cost > s.maxCost then { t with r2 := true }
        else { t with r3 := true }
      | .err => { t with err := true }
    -- SerContract, monitored on the oracle values of every add that reached the serializer
    let ok := if reached then
        decide (s.size ≤ op.sizeAfter) && (match r with | .ok false _ => op.sizeRestored == s.size | _ => true)
      else true
    runC s' rest (resS r s'.cost :: outs) t (serOk && ok)

/-- `C10 <i|c> <t|u> <cost_per_byte> <max_block_cost> <add>… fin;<finalSize> [@marker…]` — one whole
history per line.  The model prints, per add, `(added, done)` and `cost()`, and for finalize what the
property prescribes about the real results. -/
def handle : List String → String
  | "C10" :: kind :: truth :: cpb :: maxCost :: rest =>
    let toks := rest.filter (fun w => !w.startsWith "@")
    let addToks := toks.filter (fun w => w.startsWith "a;")
    let finTok := toks.find? (fun w => w.startsWith "fin;")
    let ops := addToks.filterMap parseAdd
    if ops.length ≠ addToks.length then "bad-op" else
    let finalSize := match finTok with
      | some f => natArg ((f.splitOn ";").getD 1 "0")
      | none => 0
    let truthful := truth == "t"
    if kind == "i" then
      let (s, outs, t) := runI (ISt.init (natArg cpb) (natArg maxCost)) ops [] {}
      let fin := s.finalize
      s!"{" ".intercalate outs} | {finS truthful fin} #{t.str fin.isNone}"
    else if kind == "c" then
      let (s, outs, t, serOk) := runC (CSt.init (natArg cpb) (natArg maxCost)) ops [] {} true
      let fin := s.finalize finalSize
      let finOk := decide (finalSize ≤ s.size + 2)
      let body := finS truthful fin
      let body := if serOk && finOk then body else body.replace "ser=ok" "ser=BROKEN"
      s!"{" ".intercalate outs} | {body} #{t.str fin.isNone}"
    else "bad-op"
  | _ => "bad-op"

end ChiaModel.Drv.C10
