import ChiaModel.Base.Sexp
namespace ChiaModel.Drv

def words (line : String) : List String :=
  (line.trimAscii.toString.splitOn " ").filter (· ≠ "")

def hexArg (s : String) : Bytes := (ofHex s).getD []

def natArg (s : String) : Nat := s.toNat?.getD 0

def intArg (s : String) : Int := s.toInt?.getD 0

def optHex : Option Bytes → String
  | some b => hexOrDash b
  | none => "none"

end ChiaModel.Drv
