import ChiaModel.Drv.Util
import ChiaModel.Model.Blob
/-
C18 driver.  `C18 hist <op>;<op>;…`: the index-level model (L2) run over the history, printing after
each op the same observables as the harness prints for the real `MerkleBlob`; the tag reports the
property predicate evaluated on the MODEL state after each op (`ok` / `PROPFAIL:<which>`), and the
run-time check of the refinement `abs (op s) = opL1 (abs s)` on well-formed states (`ABSFAIL`).
`C18 prop …`: the property's prescription.
-/
namespace ChiaModel.Drv.C18
open ChiaModel ChiaModel.Drv ChiaModel.Blob

def two64 : Nat := 18446744073709551616

def toU64 (x : Int) : Nat := (x % (two64 : Int)).toNat
def toI64 (n : Nat) : Int := if n ≥ two64 / 2 then (n : Int) - (two64 : Int) else (n : Int)

def keyArg (s : String) : Nat := toU64 (intArg s)

/-- `hXX` = the byte XX repeated 32 times, else 64 hex digits -/
def hashArg (s : String) : Bytes :=
  match s.toList with
  | ['h', a, b] => List.replicate 32 (((ofHex (String.ofList [a, b])).getD [0]).headD 0)
  | _ => hexArg s

def parseLoc (s : String) : RefLoc :=
  if s = "auto" then .auto
  else
    match s.splitOn ":" with
    | ["left", r] => .at (keyArg r) .left
    | ["right", r] => .at (keyArg r) .right
    | _ => .auto

def parseTriples : List String → List KVH
  | k :: v :: h :: rest => (keyArg k, keyArg v, hashArg h) :: parseTriples rest
  | _ => []

def parseOp (s : String) : Option Op :=
  match words s with
  | ["ins", k, v, h, loc] => some (.ins (keyArg k) (keyArg v) (hashArg h) (parseLoc loc))
  | ["ups", k, v, h] => some (.ups (keyArg k) (keyArg v) (hashArg h))
  | ["del", k] => some (.del (keyArg k))
  | "batch" :: _ :: rest => some (.batch (parseTriples rest))
  | ["hashes"] => some .hashes
  | _ => none

def parseHist (ws : List String) : List Op :=
  let body := " ".intercalate (ws.filter (fun w => !w.startsWith "@"))
  (body.splitOn ";").filterMap parseOp

def sortKV (l : List (Nat × Nat)) : List (Int × Int) :=
  ((l.map fun (k, v) => (toI64 k, toI64 v)).toArray.qsort (fun a b => a.1 < b.1 || (a.1 == b.1 && a.2 < b.2))).toList

def kvStr : Except Err (List (Int × Int)) → String
  | .error .panic => "PANIC"
  | .error _ => "ERR"
  | .ok [] => "-"
  | .ok l => ",".intercalate (l.map fun (k, v) => s!"{k}={v}")

def sortedKV (s : Blob) : Except Err (List (Int × Int)) :=
  match keysValues s with
  | .ok l => .ok (sortKV l)
  | .error e => .error e

def verdictStr : Verdict → String
  | .ok => "ok"
  | .fail => "fail"
  | .panic => "PANIC"

def reloadStr (s : Blob) (kv : Except Err (List (Int × Int))) : String :=
  match Blob.ofBytes s.bytes with
  | none => "err"
  | some n =>
    match kv, sortedKV n with
    | .ok a, .ok b => if a == b && checkIntegrity n == .ok && n.blocks == s.blocks then "same" else "diff"
    | _, _ => "diff"

def rootStr : Except Err (Option Hash) → String
  | .error .panic => "PANIC"
  | .error _ => "ERR"
  | .ok none => "none"
  | .ok (some h) => toHex h

def proofStr (s : Blob) (root : Except Err (Option Hash)) (k : Nat) : String :=
  match proofOfInclusion s k with
  | .error .hang => "L"
  | .error .panic => "P"
  | .error .err => "E"
  | .ok p =>
    let ends : Bool := match root with
      | .ok (some r) => p.rootHash == r
      | _ => false
    s!"{if p.valid then 1 else 0}{if ends then 1 else 0}"

structure Run where
  s : Blob := Blob.empty
  m : Map := []
  outs : List String := []       -- newest first
  propFail : Option String := none
  absFail : Bool := false
  stopped : Bool := false
  wfNow : Bool := true           -- `wf s`
  newFail : Option String := none  -- property broken by an op outside the known defect classes

/-- one step: model observables, property predicate, refinement check -/
def runStep (r : Run) (op : Op) : Run :=
  if r.stopped then r else
  let (res, s') := step op r.s
  match res with
  | .error .panic => { r with outs := "P" :: r.outs, stopped := true, propFail := r.propFail <|> some "panic" }
  | .error .hang => { r with outs := "H" :: r.outs, stopped := true, propFail := r.propFail <|> some "hang" }
  | _ =>
    let okay := match res with | .ok _ => true | _ => false
    let kv := sortedKV s'
    let integ := checkIntegrity s'
    let rel := reloadStr s' kv
    let base := s!"{if okay then "O" else "E"}|{toHex (sha256 s'.bytes)}|{kvStr kv}|{verdictStr integ}|{rel}"
    let isHashes := match op with | .hashes => true | _ => false
    let root := rootHash s'
    let keys : List Int := match kv with | .ok l => l.map (·.1) | _ => []
    let proofs := if isHashes then keys.map (fun k => (k, proofStr s' root (toU64 k))) else []
    let line :=
      if isHashes then
        let ps := if proofs.isEmpty then "-" else ",".intercalate (proofs.map fun (k, p) => s!"{k}:{p}")
        s!"{base}|{rootStr root}|{ps}"
      else base
    -- the property predicate on the model state
    let m' := if okay then Map.step op r.m else r.m
    let absPost := abs s'
    let wfPost := wf s'
    let proofsOk : Bool :=
      if isHashes then
        okay && proofs.all (fun (_, p) => p == "11") &&
          (match absPost, root with
           | some (some t), .ok (some h) => h == t.merkle
           | some none, .ok none => true
           | _, _ => false)
      else true
    let pf : Option String :=
      if integ != .ok then some "integrity"
      else if !(match kv with | .ok l => l == sortKV m' | _ => false) then some "content"
      else if !okay && s'.blocks != r.s.blocks then some "failchanged"
      else if rel != "same" then some "reload"
      else if !proofsOk then some "proofs"
      else if !wfPost then some "wf"
      else if !decide (LInv s') then some "linv"
      else if !structOk s' then some "struct"   -- the strengthened invariant proved inductive (`inv_preserved`)
      else none
    -- refinement L2 → L1 (`abs_commutes`) and preservation of the invariant, checked at run time on
    -- every well-formed pre-state
    let absPre := abs r.s
    let inScope : Bool := r.propFail.isNone && r.newFail.isNone && r.wfNow && absPre.isSome
    let absBad : Bool :=
      inScope &&
        (match absPre with
         | none => true
         | some t =>
           let (ok1, t1) := Tree.step op t
           ok1 != okay || absPost != some t1 ||
             -- `hashes`: L2 lazy recomputation = tree-level `recompute`; L2 proofs = proofs read off the tree
             (isHashes &&
               (absH s' != (absH r.s).map (Option.map HT.recompute) ||
                (match absH s' with
                 | some (some ht) => keys.any (fun k =>
                     match proofOfInclusion s' (toU64 k), ht.proofOf (toU64 k) with
                     | .ok p, some q => p != q
                     | _, _ => true)
                 | _ => false))))
    let newFail : Option String := if inScope then pf else none
    { r with s := s', m := m', outs := line :: r.outs,
             propFail := r.propFail <|> (if inScope then none else pf), newFail := r.newFail <|> newFail,
             absFail := r.absFail || absBad, wfNow := wfPost }

def runHist (ops : List Op) : Run := ops.foldl runStep {}

def handle : List String → String
  | "C18" :: "hist" :: rest =>
    let r := runHist (parseHist rest)
    let body := if r.outs.isEmpty then "-" else ";".intercalate r.outs.reverse
    let tag :=
      if r.absFail then "ABSFAIL"
      else match r.newFail, r.propFail with
        | some w, _ => s!"NEWFAIL:{w}"
        | none, some w => s!"PROPFAIL:{w}"
        | none, none => "ok"
    s!"{body} #{tag}"
  | "C18" :: "prop" :: _ => "integrity=ok content=eq fail=kept reload=same proofs=ok"
  | _ => "bad-op"

end ChiaModel.Drv.C18
