import ChiaModel.Drv.Util
import ChiaModel.Drv.C07
import ChiaModel.Drv.C08
import ChiaModel.Model.WithConds
namespace ChiaModel.Drv.C09
open ChiaModel ChiaModel.Drv ChiaModel.Cond ChiaModel.Gn

def insertSorted (x : String) : List String → List String
  | [] => [x]
  | y :: t => if x ≤ y then x :: y :: t else y :: insertSorted x t

def sortS (l : List String) : List String := l.foldr insertSorted []

/-- `C09 <flags> <len> <prog> <gen run> <puzzle runs> <pks>` (only generators the native path accepts).
The model prints what the property prescribes: the helpers report exactly what full validation
reports — removals in order, additions with the hints of the validated conditions — the recovered
coin spends rebuild the same conditions, and every removed coin can be looked up. -/
def handle : List String → String
  | "C09" :: "sb" :: flags :: spends :: puz :: pks :: _markers =>
    -- `SpendBundle::additions` on a bundle that `run_spendbundle` accepts: the prescription is the
    -- created coins of the validated conditions (parent = id of the spent coin), as a multiset
    let css := if spends = "-" then [] else (spends.splitOn ";").filterMap C08.parseSpend
    let valid := C01.pkList pks
    let p : Params := { flags := natArg flags, pkOk := fun pk => valid.contains pk, sigOk := fun pairs => pairs.isEmpty }
    let runs := C07.parseRuns puz
    let puzF := fun i => (runs[i]?).getD none
    match runSpendbundle p css puzF 11000000000 with
    | .error _ => "invalid-bundle"
    | .ok (b, _) =>
      let adds := sortS (b.spends.flatMap (fun s => s.createCoin.map (fun c => s!"{toHex s.coinId}:{toHex c.ph}:{c.amount}")))
      -- the answer of the model of `SpendBundle::additions` itself (Props/C09 `bundle_additions`: equal to the
      -- prescription whenever no condition has a pair in the opcode position); what is printed is always the
      -- prescription, the tag says whether the model gave it
      match bundleAdditions css puzF with
      | some l =>
        let m := sortS (l.map (fun (par, ph, v) => s!"{toHex par}:{toHex ph}:{v}"))
        if m == adds then s!"adds=[{",".intercalate m}] #model=agrees" else s!"adds=[{",".intercalate adds}] #model=differs"
      | none => s!"adds=[{",".intercalate adds}] #model=fails"
  | "C09" :: flags :: len :: prog :: gen :: puz :: pks :: _markers =>
    match Sexp.ofBytes (hexArg prog) with
    | none => "bad-tree"
    | some pt =>
      let valid := C01.pkList pks
      let p : Params := { flags := natArg flags, pkOk := fun pk => valid.contains pk, sigOk := fun pairs => pairs.isEmpty }
      let g : GenInput := { len := natArg len, startsQuote := true, prog := pt, nrefs := 0 }
      let genRun := C07.parseRun gen
      let runs := C07.parseRuns puz
      let puzF := fun i => (runs[i]?).getD none
      match native p g genRun puzF 11000000000 with
      | .error _ => "native-rejects"
      | .ok b =>
        let vrem := b.spends.map (fun s => s!"{toHex s.coinId}:{toHex s.parentId}:{toHex s.puzzleHash}:{s.coinAmount}")
        let vadd := sortS (b.spends.flatMap (fun s => s.createCoin.map (fun c =>
          s!"{toHex s.coinId}:{toHex c.ph}:{c.amount}:" ++ (match c.hint with | some h => toHex h | none => "-"))))
        let rems := ",".intercalate vrem
        let adds := ",".intercalate vadd
        -- the scanner models (mirroring additions_and_removals / get_puzzle_and_solution_for_coin) must
        -- themselves give the prescribed answer; a deviation shows up as `scanner=differs`
        let scanOk := match additionsAndRemovals p g genRun puzF with
          | none => false
          | some (a, r) =>
            let r' := r.map (fun (id, pb, ph, v) => s!"{toHex id}:{toHex pb}:{toHex ph}:{v}")
            let a' := sortS (a.map (fun ((par, ph, v), h) => s!"{toHex par}:{toHex ph}:{v}:" ++ (match h with | some hb => toHex hb | none => "-")))
            r' == vrem && a' == vadd
        let lookupOk := match genRun with
          | none => false
          | some (_, out) => b.spends.all (fun s => match getPuzzleAndSolution out s.parentId s.puzzleHash s.coinAmount with
              | some (pz, _) => Sexp.treeHash pz == s.puzzleHash
              | none => false)
        -- the model of `get_coinspends_for_trusted_block` (Props/C09 `coinspends_rebuild_reversed`): the recovered
        -- coin spends name the validated coins in order, and the generator `build_generator` makes of them (spends
        -- reversed, puzzle runs re-indexed) is accepted by the native model with the same spend records
        let coinspendsOk := match getCoinspends fits2MB p g genRun with
          | none => false
          | some css =>
            let n := css.length
            let named := css.map (fun cs => (cs.parent, cs.puzzleHash, cs.amount)) == b.spends.map (fun s => (s.parentId, s.puzzleHash, s.coinAmount))
            let gtree := buildGenerator css
            let g2 : GenInput := { len := (Sexp.serialize gtree).length, startsQuote := true, prog := gtree, nrefs := 0 }
            let genRun2 : RunRes := some (20, .pair (Sexp.ofList ((css.map (fun s => Sexp.ofList [.atom s.parent, s.puzzle, .atom (canonNat s.amount), s.solution])).reverse)) Sexp.nil)
            let puzRev := fun i => puzF (n - 1 - i)
            named && (match native p g2 genRun2 puzRev 1000000000000000 with
              | .ok b2 => b2.spends.map C01.spendS == (b.spends.map C01.spendS).reverse
              | .error _ => false)
        -- the model of `get_coinspends_with_conditions_for_trusted_block` (Props/C09 `withconds_of_accept`,
        -- `listing_spec`): its listings, as text (or as the SHA-256 of the text when long)
        let wcl := match getCoinspendsWithConds fits2MB p g genRun puzF with
          | none => "ERR"
          | some l =>
            let entryS : Nat × List Bytes → String := fun e => s!"{e.1}:" ++ String.join (e.2.map (fun a => "x" ++ toHex a))
            let spendS : CoinSpendM × CondListing → String := fun q => ",".intercalate (q.2.map entryS)
            let txt := "|".intercalate (l.map spendS)
            if txt.length ≤ 2000 then txt else s!"sha:{toHex (sha256 (txt.toUTF8.toList.map UInt8.toNat))}"
        s!"rem=[{rems}] add=[{adds}] || rebuild=same lookup=found withconds=same || vrem=[{rems}] vadd=[{adds}] || scanner={if scanOk && lookupOk && coinspendsOk then "agrees" else "differs"} || wcl={wcl}"
  | _ => "bad-op"

end ChiaModel.Drv.C09
