import ChiaModel.Drv.Util
import ChiaModel.Model.Keys
/-
C16 driver.  One case per line:

  C16 rt g1 <hex48> <u> <v>       un=… ck=… parse=.. prop=ok
  C16 rt g2 <hex96> <u> <v>       (same)
  C16 rt sk <hex32>               ok:<hex> prop=ok | err prop=ok
  C16 rt gt <hex576>              ok:<sha256 of the re-serialised element> eq=T
  C16 derive <p|w> <sk> <i.j.k> <map>   p: L1:<sk>/<pk>/<pk>;L2:… prop=ok    w: I:…;W:… prop=ok
  C16 synth <sk> <hph> <map>      sk=… pkA=… pkB=… prop=ok
  C16 add <sk1> <sk2> <map>       sk=… pkA=… pkB=… prop=ok
  C16 modr <hex>                  <hex32>
  C16 sign <sk> <msg> <vsk> <vmsg> <map>   det=T rt=T valid=T verify=T|F

`<u> <v>` (0/1): blst's answers for this encoding, obtained by the harness through raw FFI calls
(`blst_pN_uncompress` succeeded; the point is infinity or in the subgroup).  `<map>` = `sk=pk,…`
(hex): `PublicKey::to_bytes` of the key with that scalar — the model's `enc`.

What is printed is what the PROPERTY prescribes:
  * an accepted encoding re-serialises to ITSELF (unique encoding);
  * unchecked parsing: the format table decides where it can (for G1 this is /repo's own code,
    `flag_bits_table`; for G2 /repo delegates everything and blst has to implement the table), an
    out-of-range coordinate is rejected, otherwise blst's answer `u`;
  * checked parsing accepts ⇔ unchecked accepts ∧ `v`;
  * `Streamable::parse::<TRUSTED>` = unchecked, `parse::<false>` = checked;
  * both derivation routes give the model's child scalar (`(sk + H) mod r`, `H` from the model's own
    SHA-256 of the real key bytes ‖ index) and the encoding of THAT scalar's public key.
-/
namespace ChiaModel.Drv.C16
open ChiaModel ChiaModel.Drv ChiaModel.Keys

def tf (b : Bool) : String := if b then "T" else "F"

/-! ### rt -/

def errName : G1Err → String
  | .notCanonical => "G1NotCanonical"
  | .infinityInvalidBits => "G1InfinityInvalidBits"
  | .infinityNotZero => "G1InfinityNotZero"

def flagTag (b : Bytes) : String :=
  let b0 := b.headD 0
  s!"c{if bitC b0 then 1 else 0}i{if bitI b0 then 1 else 0}s{if bitS b0 then 1 else 0}" ++
  (if low5Zero b0 then ".l0" else ".l+") ++ (if isAllZero (b.drop 1) then ".t0" else ".t+")

def showOpt (o : Option OPoint) (B : Blst OPoint) : String :=
  match o with
  | some x => toHex (toBytes B x)
  | none => "err"

/-- `un`, `ck` and the two `parse` verdicts of the model's wrappers over the oracle instance -/
def rtOut (un ck pt pu : Option OPoint) (B : Blst OPoint) (tag : String) : String :=
  s!"un={showOpt un B} ck={showOpt ck B} parse={tf pt.isSome}{tf pu.isSome} prop=ok #{tag}"

def rtG1 (b : Bytes) (u v : Bool) : String :=
  -- blst's contract on the coordinate range (x < p) is prescribed, not taken from the oracle
  let u' := u && decide (g1X b < p)
  let B := oracleBlst 48 b u' v
  let un := g1FromBytesUnchecked B b
  let ck := g1FromBytes B b
  let what := match g1Flags b with
    | .inf => "inf"
    | .err e => errName e
    | .blst => if !(decide (g1X b < p)) then "blst:x>=p" else if !u then "blst:reject" else if v then "blst:subgroup" else "blst:off-subgroup"
  -- the format table and /repo's table differ only where /repo rejects more
  let quirk := if (g1Flags b).cls != formatClass b then "!format=" ++ (if formatClass b == .blst then "blst" else "other") else ""
  rtOut un ck (g1Parse B true b) (g1Parse B false b) B s!"g1.{flagTag b}/{what}{quirk}"

def rtG2 (b : Bytes) (u v : Bool) : String :=
  -- /repo has no rule of its own (`g2Flags = blst`); the property prescribes the format table and
  -- the coordinate range, so they override the oracle's `u`
  let fc := formatClass b
  let inRange := g2CoordsInRange b
  let u' := match fc with
    | .reject => false
    | .inf => true
    | .blst => u && inRange
  let B := oracleBlst 96 b u' (if fc == .inf then true else v)
  let un := g2FromBytesUnchecked B b
  let ck := g2FromBytes B b
  let what := match fc with
    | .reject => "format:reject"
    | .inf => "inf"
    | .blst => if !inRange then "blst:x>=p" else if !u then "blst:reject" else if v then "blst:subgroup" else "blst:off-subgroup"
  rtOut un ck (g2Parse B true b) (g2Parse B false b) B s!"g2.{flagTag b}/{what}"

def rtSk (b : Bytes) : String :=
  match skFromBytes b with
  | some s => s!"ok:{toHex (skToBytes s)} prop=ok #sk." ++ (if s = 0 then "zero" else "ok")
  | none => "err prop=ok #sk." ++ (if beVal b = r then "=r" else ">r")

def rtGt (b : Bytes) : String :=
  s!"ok:{toHex (sha256 (gtToBytes (gtFromBytes b)))} eq=T #gt.len{b.length}"

/-! ### keys: the `sk=pk` table -/

abbrev KeyMap := List (Nat × Bytes)

def parseMap (s : String) : KeyMap :=
  (s.splitOn ",").filterMap (fun e =>
    match e.splitOn "=" with
    | [a, b] => some (beVal (hexArg a), hexArg b)
    | _ => none)

/-- `PublicKey::to_bytes` of the key with scalar `k` (empty = the harness did not list that scalar:
the implementation reached a key the model does not) -/
def encOf (km : KeyMap) (k : Nat) : Bytes := (km.lookup k).getD []

def showPk (km : KeyMap) (k : Nat) : String :=
  match km.lookup k with
  | some b => toHex b
  | none => "nokey"

def parsePath (s : String) : List Nat := (s.splitOn ".").map natArg

/-- one level: `<sk>/<pk via the PublicKey route>/<pk of the SecretKey route>` — the property
prescribes the same scalar for both routes -/
def levelStr (km : KeyMap) (sk pk : Nat) : String :=
  s!"{toHex (skToBytes sk)}/{showPk km pk}/{showPk km (pkOf sk)}"

/-- scalars along the path: (SecretKey route, PublicKey route) after each index -/
def levels (enc : Nat → Bytes) : Nat → Nat → List Nat → List (Nat × Nat)
  | _, _, [] => []
  | sk, pk, i :: rest =>
    let sk' := deriveSk enc sk i
    let pk' := derivePk enc pk i
    (sk', pk') :: levels enc sk' pk' rest

def idxTag (i : Nat) : String :=
  if i = 0 then "0" else if i = 1 then "1" else if i = 2 ^ 31 then "2^31" else if i = 2 ^ 32 - 1 then "2^32-1"
  else if i ≥ 2 ^ 31 then "hi" else "lo"

def derive (mode : String) (skb : Bytes) (path : List Nat) (km : KeyMap) : String :=
  match skFromBytes skb with
  | none => "bad-sk"
  | some sk =>
    let enc := encOf km
    let ls := levels enc sk (pkOf sk) path
    if mode = "w" then
      match ls with
      | [_, _, (s3, p3), (s4, p4)] =>
        s!"I:{levelStr km s3 p3};W:{levelStr km s4 p4} prop=ok #wallet.{idxTag (path.getD 3 0)}"
      | _ => "bad-path"
    else
      let strs := (List.range ls.length).zip ls |>.map (fun x => s!"L{x.1 + 1}:{levelStr km x.2.1 x.2.2}")
      s!"{";".intercalate strs} prop=ok #len{path.length}.{idxTag (path.getLastD 0)}"

def synth (skb hph : Bytes) (km : KeyMap) : String :=
  match skFromBytes skb with
  | none => "bad-sk"
  | some sk =>
    let enc := encOf km
    match synthSk enc sk hph, synthPk enc (pkOf sk) hph with
    | some s, some q => s!"sk={toHex (skToBytes s)} pkA={showPk km q} pkB={showPk km (pkOf s)} prop=ok"
    | _, _ => "PANIC"

def add (a b : Bytes) (km : KeyMap) : String :=
  match skFromBytes a, skFromBytes b with
  | some x, some y =>
    let s := skAdd x y
    s!"sk={toHex (skToBytes s)} pkA={showPk km (gAdd (pkOf x) (pkOf y))} pkB={showPk km (pkOf s)} prop=ok #" ++
      (if s = 0 then "zero" else if x + y ≥ r then "wrap" else "nowrap")
  | _, _ => "bad-sk"

def modr (b : Bytes) : String :=
  let v := intOfBytes b
  let tag := if v < 0 then (if -v ≥ (r : Int) then "neg>=r" else "neg<r") else (if v ≥ (r : Int) then "pos>=r" else "pos<r")
  s!"{toHex (modByGroupOrder b)} #{tag}"

def signCase (skb msg vskb vmsg : Bytes) (km : KeyMap) : String :=
  match skFromBytes skb, skFromBytes vskb with
  | some sk, some vsk =>
    let enc := encOf km
    let s1 := signModel sk (enc (pkOf sk)) msg
    let s2 := signModel sk (enc (pkOf sk)) msg
    let ver := verifyModel s1 vsk (enc (pkOf vsk)) vmsg
    s!"det={tf (decide (s1 = s2))} rt=T valid={tf s1.isValid} verify={tf ver} #" ++
      (if sk = 0 then "zero-key" else if sk = vsk ∧ msg = vmsg then "same" else if sk = vsk then "other-msg" else "other-key")
  | _, _ => "bad-sk"

def bit (s : String) : Bool := s = "1"

def handle : List String → String
  | ["C16", "rt", "g1", h, u, v] => rtG1 (hexArg h) (bit u) (bit v)
  | ["C16", "rt", "g2", h, u, v] => rtG2 (hexArg h) (bit u) (bit v)
  | ["C16", "rt", "sk", h] => rtSk (hexArg h)
  | ["C16", "rt", "gt", h] => rtGt (hexArg h)
  | ["C16", "derive", mode, sk, path, km] => derive mode (hexArg sk) (parsePath path) (parseMap km)
  | ["C16", "synth", sk, hph, km] => synth (hexArg sk) (hexArg hph) (parseMap km)
  | ["C16", "add", a, b, km] => add (hexArg a) (hexArg b) (parseMap km)
  | ["C16", "modr", h] => modr (hexArg h)
  | ["C16", "sign", sk, msg, vsk, vmsg, km] => signCase (hexArg sk) (hexArg msg) (hexArg vsk) (hexArg vmsg) (parseMap km)
  | _ => "bad-op"

end ChiaModel.Drv.C16
