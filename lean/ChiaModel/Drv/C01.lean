import ChiaModel.Drv.Util
import ChiaModel.Model.Conditions
namespace ChiaModel.Drv.C01
open ChiaModel ChiaModel.Drv ChiaModel.Cond

def optS : Option Nat → String
  | some v => toString v
  | none => "-"

def pairsS (l : List (Bytes × Bytes)) : String :=
  "[" ++ ",".intercalate (l.map (fun (a, b) => s!"{toHex a}:{hexOrDash b}")) ++ "]"

def coinS (c : NewCoin) : String :=
  s!"{toHex c.ph}:{c.amount}:" ++ (match c.hint with | some h => toHex h | none => "-")

/-- canonical (sorted) rendering of a string list -/
def sortedS (l : List String) : String := "[" ++ "|".intercalate (l.toArray.qsort (· < ·)).toList ++ "]"

def spendS (s : Spend) : String :=
  s!"id={toHex s.coinId} p={toHex s.parentId} ph={toHex s.puzzleHash} amt={s.coinAmount} hr={optS s.heightRelative} " ++
  s!"sr={optS s.secondsRelative} bhr={optS s.beforeHeightRelative} bsr={optS s.beforeSecondsRelative} " ++
  s!"bh={optS s.birthHeight} bs={optS s.birthSeconds} cc={sortedS (s.createCoin.map coinS)} me={pairsS s.aggSigMe} " ++
  s!"par={pairsS s.aggSigParent} puz={pairsS s.aggSigPuzzle} amo={pairsS s.aggSigAmount} pza={pairsS s.aggSigPuzzleAmount} " ++
  s!"pra={pairsS s.aggSigParentAmount} prp={pairsS s.aggSigParentPuzzle} fl={s.flags} ccost={s.conditionCost} ecost={s.executionCost}"

def bundleS (b : Bundle) : String :=
  s!"OK cost={b.cost} cc={b.conditionCost} ec={b.executionCost} fee={b.reserveFee} ha={b.heightAbsolute} sa={b.secondsAbsolute} " ++
  s!"bha={optS b.beforeHeightAbsolute} bsa={optS b.beforeSecondsAbsolute} rem={b.removalAmount} add={b.additionAmount} " ++
  s!"vs={if b.validatedSignature then 1 else 0} unsafe={pairsS b.aggSigUnsafe} spends=[" ++ ";".intercalate (b.spends.map spendS) ++ "]"

def pkList (s : String) : List Bytes :=
  if s = "-" then [] else (s.splitOn ",").map hexArg

def resultS : R (Bundle × PState) → String
  | .ok (b, _) => bundleS b
  | .error .costExceeded => "REJECT cost"
  | .error .reject => "REJECT"

/-- `C01 <e|m> <flags> <maxcost> <clvmcost> <valid-pks|-> <tree hex>`; the signature offered is the
identity element, so BLS verification succeeds exactly when no (pk, text) pair was collected. -/
def handle : List String → String
  | ["C01", vis, flags, maxCost, clvmCost, pks, tree] =>
    match Sexp.ofBytes (hexArg tree) with
    | none => "bad-tree"
    | some t =>
      let valid := pkList pks
      let env : Env := { flags := natArg flags, mempool := vis == "m", pkOk := fun pk => valid.contains pk }
      resultS (parseSpends env (fun pairs => pairs.isEmpty) t (natArg maxCost) (natArg clvmCost))
  | _ => "bad-op"

end ChiaModel.Drv.C01
