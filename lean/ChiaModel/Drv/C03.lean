import ChiaModel.Drv.Util
import ChiaModel.Drv.C01
import ChiaModel.Model.TimeLocks
namespace ChiaModel.Drv.C03
open ChiaModel ChiaModel.Drv ChiaModel.Cond ChiaModel.TL

def listElems : Sexp → List Sexp
  | .pair a r => a :: listElems r
  | .atom _ => []

def parseRecords (s : String) : List (Bytes × CoinRec) :=
  if s = "-" then [] else
  (s.splitOn ",").filterMap (fun e =>
    match e.splitOn ":" with
    | [id, h, t] => some (hexArg id, { confirmedIndex := natArg h, timestamp := natArg t })
    | _ => none)

/-- the property's prescription, evaluated directly: every spend has a record and each of its
individual assertions holds (Props/C03 `locks_iff` proves this equal to the folded check) -/
def specVerdict (flags : Nat) (spends : List Spend) (trees : List Sexp) (lookup : Bytes → Option CoinRec) (prev ts : Nat) : Bool :=
  (spends.zip trees).all (fun p => match lookup p.1.coinId with
    | none => false
    | some rec => (spendLocks flags p.2).all (fun l => l.holds prev ts rec))

/-- `C03 <flags> <nowrap> <prev height> <timestamp> <records> <valid pks> <tree>` -/
def handle : List String → String
  | ["C03", flags, nowrap, prev, ts, recs, pks, tree] =>
    match Sexp.ofBytes (hexArg tree) with
    | none => "bad-tree"
    | some t =>
      let valid := C01.pkList pks
      let flags := natArg flags
      let env : Env := { flags := flags, mempool := false, pkOk := fun pk => valid.contains pk }
      match parseSpends env (fun pairs => pairs.isEmpty) t 11000000000 0 with
      | .error _ => "REJECT"
      | .ok (b, _) =>
        let records := parseRecords recs
        let lookup := fun id => (records.find? (fun r => r.1 == id)).map (·.2)
        let (prev, ts) := (natArg prev, natArg ts)
        let m := checkTimeLocks (nowrap == "1") b lookup prev ts
        if nowrap == "1" then
          let iter := match t with | .pair l _ => l | x => x
          let v := specVerdict flags b.spends (listElems iter) lookup prev ts
          (if v then "LOCKS ok" else "LOCKS fail") ++ (if v == m then " #agree" else " #MODEL-DIFFERS-FROM-SPEC")
        else (if m then "LOCKS ok" else "LOCKS fail") ++ " #legacy"
  | _ => "bad-op"

end ChiaModel.Drv.C03
