import ChiaModel.Drv.Util
import ChiaModel.Model.MerkleSet
namespace ChiaModel.Drv.C12
open ChiaModel ChiaModel.Drv ChiaModel.Merkle

/-- `-` = no leaves, otherwise comma-separated 32-byte hex strings -/
def leavesArg (s : String) : List Bytes :=
  if s = "-" then [] else (s.splitOn ",").map hexArg

def typeName : NodeType → String
  | .empty => "empty"
  | .term => "term"
  | .mid => "mid"
  | .midDbl => "middbl"

def verdict : Option Bool → String
  | none => "ERR"
  | some true => "true"
  | some false => "false"

/-- verdict of `validateMerkleProof` together with the step that decided (coverage tag only);
`validateMerkleProof` is by definition the first component -/
def validateTagged (proof item root : Bytes) : Option Bool × String :=
  match validateOutcome sha256 proof item root with
  | .verdict true => (some true, "included")
  | .verdict false => (some false, "excluded")
  | .parseErr => (none, "parse-err")
  | .rootMismatch => (none, "root-mismatch")
  | .truncatedOnPath => (none, "truncated-on-path")

def handle : List String → String
  | ["C12", "root", ls] =>
    let l := leavesArg ls
    -- what the property prescribes: the reference trie root of the set of leaves, for both functions
    let spec := Spec.root sha256 (Spec.dedup l)
    let r1 := computeMerkleSetRoot sha256 l
    let r2 := getRoot sha256 (fromLeafs sha256 l).nodes
    let ty := if l = [] then "empty" else typeName (radixSort sha256 256 l).2
    let dup := if (Spec.dedup l).length < l.length then "+dup" else ""
    if r1 = spec then s!"{toHex spec} {toHex r2} #{ty}{dup}"
    else s!"{toHex spec} {toHex r2} model-radix-root={toHex r1} #{ty}{dup}"
  | ["C12", "proof", ls, item] =>
    let l := leavesArg ls
    let x := hexArg item
    match generateProof (fromLeafs sha256 l) x with
    | none => "ERR"
    | some (b, p) =>
      -- the flag the property prescribes is membership; the model's flag is proved equal to it
      let want := decide (x ∈ l)
      let flag := if b = want then (if want then "1" else "0") else "flag-differs-from-membership"
      s!"{flag} {hexOrDash p} #{if want then "incl" else "excl"}"
  | ["C12", "validate", root, item, proof, claim] =>
    -- `claim` (in|out|any): what the harness knows about the membership of `item` in the set whose
    -- root `root` is; a verdict that contradicts it would be unsound (the model is proved sound)
    let p := hexArg proof
    let x := hexArg item
    let r := hexArg root
    let (v, tag) := validateTagged p x r
    let ok := match v, claim with
      | some b, "in" => b
      | some b, "out" => !b
      | _, _ => true
    s!"{verdict v}{if ok then "" else " MODEL-UNSOUND"} #{tag}"
  | ["C12", "sound", ls, item, proof] =>
    let l := leavesArg ls
    let p := hexArg proof
    let x := hexArg item
    let r := computeMerkleSetRoot sha256 l
    let (v, tag) := validateTagged p x r
    -- soundness: a verdict, if any, is the membership (the model is proved to satisfy this)
    let ok := match v with
      | none => true
      | some b => b = decide (x ∈ l)
    s!"{verdict v}{if ok then "" else " MODEL-UNSOUND"} #{tag}"
  | _ => "bad-op"

end ChiaModel.Drv.C12
