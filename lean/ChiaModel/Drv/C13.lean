import ChiaModel.Drv.Util
import ChiaModel.Base.Sha256
import ChiaModel.Model.Streamable
import ChiaModel.Model.ClvmScan
import ChiaModel.Gen.Streamable
/-!
Driver handler for C13 and C14 (one model).

case lines
* `C13 rt <Type> <hex> [o=<oracle entries>]` → `ok <encode (decode b)> <sha256 (encodeForHash v) | undef> <same|differs>` / `err`
* `C14 dec <Type> <t|u> <hex> [o=<oracle entries>] [@marker]` → `ok small` / `err small`
  (what the property prescribes: a value or an error, never a panic, allocation in proportion)

oracle entries (answers of the external code for this input, shipped by the harness), comma separated:
`a<96 hex>:<0|1|2>` (G1 status), `b<192 hex>:<0|1|2>` (G2 status), `q<hex of the ProofOfSpace encoding>:<64 hex | none>`.
A point that is not listed counts as rejected, a quality string that is not listed as `None`.
-/
namespace ChiaModel.Drv.C13
open ChiaModel ChiaModel.Drv ChiaModel.Streamable

/-- tail-recursive hex parser (inputs reach several hundred kilobytes) -/
def unhex (s : String) : Bytes :=
  if s = "-" then [] else
  let rec go (cs : List Char) (acc : Array Nat) : Array Nat :=
    match cs with
    | a :: b :: rest => go rest (acc.push ((hexVal a).getD 0 * 16 + (hexVal b).getD 0))
    | _ => acc
  (go s.toList #[]).toList

/-- order of the BLS12-381 group (secret keys must be below it; zero is allowed) -/
def groupOrder : Nat := 0x73eda753299d7d483339d80809a1d80553bda402fffe5bfeffffffff00000001

structure Table where
  g1 : List (Bytes × Nat) := []
  g2 : List (Bytes × Nat) := []
  q : List (Bytes × Option Bytes) := []

def lookup {α : Type} (l : List (Bytes × α)) (k : Bytes) : Option α :=
  match l.find? (fun e => e.1 == k) with
  | some e => some e.2
  | none => none

def parseEntry (t : Table) (e : String) : Table :=
  match e.splitOn ":" with
  | [k, v] =>
    let kind := k.toList.headD ' '
    let key := unhex (String.ofList (k.toList.drop 1))
    if kind = 'a' then { t with g1 := (key, natArg v) :: t.g1 }
    else if kind = 'b' then { t with g2 := (key, natArg v) :: t.g2 }
    else if kind = 'q' then { t with q := (key, if v = "none" then none else some (unhex v)) :: t.q }
    else t
  | _ => t

def oracles (t : Table) : Oracles where
  g1 := fun b => (lookup t.g1 b).getD 0
  g2 := fun b => (lookup t.g2 b).getD 0
  sk := fun b => decide (beVal b < groupOrder)
  serLen := ClvmScan.clvmSerLen
  quality := fun b => (lookup t.q b).getD none

def tableOf (args : List String) : Table :=
  args.foldl (fun t a =>
    if a.startsWith "o=" then ((String.ofList (a.toList.drop 2)).splitOn ",").foldl parseEntry t else t) {}

def tyOf (name : String) : Option Ty :=
  match Gen.Streamable.streamableTypes.find? (fun e => e.1 == name) with
  | some e => some e.2
  | none => none

/-- K: peak allocation of the implementation may not exceed `K * (input length + slack)`; the model's own
reservation counter is reported in the tag -/
def allocTag (a : Nat) : String :=
  if a = 0 then "" else if a < 65536 then "-res" else if a < allocCap then "-res64k" else "-res2M"

def handle : List String → String
  | "C13" :: "rt" :: ty :: hex :: rest =>
    match tyOf ty with
    | none => "bad-type"
    | some t =>
      let O := oracles (tableOf rest)
      let b := unhex hex
      match (fromBytes O false t b).out with
      | .ok v =>
        let enc := match encode O t v with
          | some e => hexOrDash e
          | none => "ENC-ERR"
        let h := match encodeForHash O t v with
          | some p => toHex (sha256 p)
          | none => "undef"
        let agree := match (fromBytes O true t b).out with
          | .ok v' => if v' == v then "same" else "differs"
          | _ => "differs"
        s!"ok {enc} {h} {agree} #ok" ++ (if h = "undef" then "-undef" else "")
      | .err => "err #err"
      | .panic s => s!"MODEL-PANIC {s}"
  | "C14" :: "dec" :: ty :: mode :: hex :: rest =>
    match tyOf ty with
    | none => "bad-type"
    | some t =>
      let O := oracles (tableOf rest)
      let b := unhex hex
      let r := fromBytes O (mode == "t") t b
      match r.out with
      | .ok v =>
        -- the model's own prediction for the post-operations goes into the tag only
        let dig := match digestChunks O t v with
          | .ok _ => ""
          | .err => "-digest-err"
          | .panic _ => "-digest-panic"
        let enc := match encode O t v with
          | some _ => ""
          | none => "-enc-err"
        s!"ok small #ok{dig}{enc}{allocTag r.alloc}"
      | .err => s!"err small #err{allocTag r.alloc}"
      | .panic s => s!"MODEL-PANIC {s}"
  | _ => "bad-op"

end ChiaModel.Drv.C13
