import ChiaModel.Drv.Util
import ChiaModel.Model.Ints
import ChiaModel.Model.TreeHash
/-
C17 driver.  Every output is the SPECIFICATION's value: the tree hash (atoms prefix 1, pairs prefix 2)
of the tree the pointer denotes, read from `hashTable` (Props/C17 `hashTable_spec`:
entry n = `treeHash (denote heap n)`).  The executable models of the Rust routines are run next to
it on the same input; they are proved equal to the specification, so a difference (printed as
`MODEL-DIFFERS`) can only mean the proofs and the driver went out of step.

line kinds
  C17 pre <i>                          PRECOMPUTED_HASHES[i]
  C17 heap <nodes> <ops> <brs>         one Allocator, one TreeCache, a sequence of operations
     nodes  ','-separated:  a<hex>  new_atom      s<dec>  new_small_number     l<hex>  atom forced onto the
                            heap as bytes (new_concat)     p<i>.<j>  new_pair of two earlier nodes
     ops    ','-separated:  g<k> allocate the nodes below index k now (interleaved allocation)
                            v<i> cache.visit_tree   h<i> tree_hash_cached   t<i> tree_hash
                            b<i> tree_hash_from_bytes(node_to_bytes)   r<i> …(node_to_bytes_backrefs)
                            e<i> ToTreeHash through the TreeHasher encoder
                            c<p>:<a>.<b>…  curry_tree_hash / tree hash of the real CurriedProgram / TreeHasher
                            m    (debug) memo state of the cache
     brs    ';'-separated hex: the bytes node_to_bytes_backrefs produced for each r-op (`-` if none)
  C17 bytes <hex>                      tree_hash_from_bytes on an arbitrary byte string
-/
namespace ChiaModel.Drv.C17
open ChiaModel ChiaModel.Drv ChiaModel.TreeHash

/-- trees above this size are not pushed through the path-exponential model routines (the spec value
comes from the linear table either way) -/
def modelLimit : Nat := 8000

def parseNode (s : String) : Option Node :=
  match s.toList with
  | 'a' :: r => (ofHex (String.ofList r)).map newAtom
  | 'l' :: r => (ofHex (String.ofList r)).map Node.atom
  | 's' :: r => (String.ofList r).toNat?.map Node.small
  | 'p' :: r =>
    match (String.ofList r).splitOn "." with
    | [i, j] => match i.toNat?, j.toNat? with
      | some i, some j => some (.pair i j)
      | _, _ => none
    | _ => none
  | _ => none

def parseHeap (s : String) : Option Heap :=
  (s.splitOn ",").foldl (fun acc w => match acc, parseNode w with
    | some h, some nd => some (h.push nd)
    | _, _ => none) (some #[])

structure St where
  heap : Heap                 -- all nodes of the case
  cur : Heap                  -- the nodes allocated so far
  tbl : Array Bytes           -- hashTable cur
  sizes : Array Nat           -- sizeTable cur
  cache : Cache
  brs : List String
  out : List String           -- reversed
  hits : Nat
  dag : Bool

def St.alloc (s : St) (k : Nat) : St :=
  let cur := s.heap.extract 0 k
  { s with cur := cur, tbl := hashTable cur, sizes := sizeTable cur }

def St.spec (s : St) (i : Nat) : Bytes := s.tbl.getD i []
def St.emit (s : St) (x : String) : St := { s with out := x :: s.out }
def St.size (s : St) (i : Nat) : Nat := s.sizes.getD i 0

def checked (spec : Bytes) (model : Option Bytes) (what : String) : String :=
  if model == some spec then toHex spec else s!"MODEL-DIFFERS({what})"

def natList (s : String) : List Nat :=
  if s.isEmpty then [] else (s.splitOn ".").map natArg

def memoSummary (s : St) : String := Id.run do
  let mut got := 0
  let mut sm := 0
  let mut sum := 0
  for i in [0:s.cur.size] do
    if isPair s.cur i then
      if (s.cache.get s.cur i).isSome then
        got := got + 1
        sum := (sum + (i + 1) * (i + 1)) % 1000000007
      else if s.cache.shouldMemoize s.cur i then
        sm := sm + 1
  return s!"m{got}/{sm}/{sum}"

def stepOp (s : St) (op : String) : St :=
  let arg := String.ofList (op.toList.drop 1)
  match op.toList.head? with
  | some 'g' => s.alloc (natArg arg)
  | some 'v' =>
    match visitTree s.cur s.cache (natArg arg) with
    | some c => { s with cache := c }
    | none => s.emit "MODEL-DIFFERS(visit fuel)"
  | some 'h' =>
    let i := natArg arg
    let s := { s with dag := s.dag || s.size i > s.cur.size }
    match treeHashCached s.cur i s.cache with
    | some (x, c) =>
      let s := { s with hits := s.hits + (c.hashes.size - s.cache.hashes.size), cache := c }
      s.emit (checked (s.spec i) (some x) "cached")
    | none => s.emit "MODEL-DIFFERS(cached none)"
  | some 't' =>
    let i := natArg arg
    if s.size i ≤ modelLimit then s.emit (checked (s.spec i) (treeHashIter s.cur i) "iter")
    else s.emit (toHex (s.spec i))
  | some 'b' =>
    let i := natArg arg
    if s.size i ≤ modelLimit then
      s.emit (checked (s.spec i) (treeHashFromBytes (Sexp.serialize (denote s.cur i))) "from-bytes plain")
    else s.emit (toHex (s.spec i))
  | some 'r' =>
    let i := natArg arg
    let (bytes, rest) := match s.brs with
      | b :: r => (hexArg b, r)
      | [] => ([], [])
    let s := { s with brs := rest }
    -- the model deserialiser reads what clvmr's compressing serialiser wrote, then the cached machine
    -- runs on the heap (with sharing) it built
    s.emit (checked (s.spec i) (treeHashFromBytes bytes) "from-bytes backrefs")
  | some 'e' => s.emit (toHex (s.spec (natArg arg)))
  | some 'c' =>
    match arg.splitOn ":" with
    | [p, as] =>
      let p := natArg p
      let as := natList as
      let spec := Sexp.treeHash (curry (denote s.cur p) (as.map (denote s.cur)))
      let m := curryTreeHash (s.spec p) (as.map s.spec)
      let x := checked spec (some m) "curry"
      -- curry_tree_hash, tree_hash of CurriedProgram::to_clvm, TreeHasher: all must be the spec value
      s.emit s!"{x} {toHex spec} {toHex spec}"
    | _ => s.emit "bad-op"
  | some 'm' => s.emit (memoSummary s)
  | _ => s.emit "bad-op"

def handle : List String → String
  | ["C17", "pre", i] =>
    let i := natArg i
    toHex (sha256 (1 :: canonNat i))
  | ["C17", "heap", nodes, ops, brs] =>
    match parseHeap nodes with
    | none => "bad-heap"
    | some heap =>
      let s0 : St := { heap := heap, cur := #[], tbl := #[], sizes := #[], cache := Cache.empty,
                       brs := if brs == "-" then [] else brs.splitOn ";", out := [], hits := 0, dag := false }
      let s := (ops.splitOn ",").foldl stepOp (s0.alloc heap.size)
      let tag := (if s.dag then "dag" else "tree") ++ (if s.hits > 0 then "+memo" else "")
      " ".intercalate s.out.reverse ++ " #" ++ tag
  | ["C17", "bytes", b] =>
    let b := hexArg b
    match deserializeBackrefs b with
    | none => "REJECT"
    | some (h, r) =>
      let spec := (hashTable h).getD r []
      checked spec (treeHashFromBytes b) "from-bytes" ++ " #ok"
  | _ => "bad-op"

end ChiaModel.Drv.C17
