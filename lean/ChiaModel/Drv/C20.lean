import ChiaModel.Drv.C13
import ChiaModel.Model.JsonDict
import ChiaModel.Gen.JsonDict
/-!
Driver handler for C20 (JSON-dict representation).

case lines (the JSON text is in the space-free line form: `json.dumps(o, sort_keys=True, separators=(',',':'))`
with every space inside a string written ` `, so that it is one word)
* `C20 rt <Type> <hex> [o=<oracle entries>]`
    → `ok <json text> <same|differs> <re-encoding hex> <sha256 | undef> prop=<ok|n/a>` / `err`
  the bytes are decoded by descriptor, `toJson` is printed, `fromJson (toJson v)` is compared with `v`, re-encoded and
  hashed.  For the exported classes `Props/C20.roundtrip` proves that this is `same` with the bytes and hash of `v`,
  which is what the property prescribes (`prop=ok`); the combinator samples are not classes (`prop=n/a`).
* `C20 bad <Type> <kind> <json text> [o=<oracle entries>]` → `ok <re-encoding hex | ENC-ERR> prop=<ok|n/a>` / `err prop=<ok|n/a>`
  (`fromJson` verdict on the text as parsed by `json.loads`)
oracle entries as in `Drv/C13.lean`.
-/
namespace ChiaModel.Drv.C20
open ChiaModel ChiaModel.Drv ChiaModel.Streamable ChiaModel.JsonDict

/-- UTF-8 encoding of a code point (surrogates are written in the generalised 3-byte form) -/
def utf8Enc (cp : Nat) : Bytes :=
  if cp < 0x80 then [cp]
  else if cp < 0x800 then [0xC0 + cp / 64, 0x80 + cp % 64]
  else if cp < 0x10000 then [0xE0 + cp / 4096, 0x80 + cp / 64 % 64, 0x80 + cp % 64]
  else [0xF0 + cp / 262144, 0x80 + cp / 4096 % 64, 0x80 + cp / 64 % 64, 0x80 + cp % 64]

def isWs (c : Char) : Bool := c = ' ' || c = '\n' || c = '\t' || c = '\r'

def skipWs : List Char → List Char
  | c :: r => if isWs c then skipWs r else c :: r
  | [] => []

def hex4 : List Char → Option (Nat × List Char)
  | a :: b :: c :: d :: r =>
    match hexVal a, hexVal b, hexVal c, hexVal d with
    | some w, some x, some y, some z => some (w * 4096 + x * 256 + y * 16 + z, r)
    | _, _, _, _ => none
  | _ => none

/-- body of a string literal after the opening quote → (UTF-8 bytes, rest after the closing quote) -/
partial def parseStr (cs : List Char) (acc : Array Nat) : Option (Bytes × List Char) :=
  match cs with
  | [] => none
  | '"' :: r => some (acc.toList, r)
  | '\\' :: e :: r =>
    if e = 'u' then
      match hex4 r with
      | none => none
      | some (hi, r2) =>
        if 0xD800 ≤ hi ∧ hi < 0xDC00 then
          match r2 with
          | '\\' :: 'u' :: r3 =>
            match hex4 r3 with
            | some (lo, r4) =>
              if 0xDC00 ≤ lo ∧ lo < 0xE000 then
                parseStr r4 (acc ++ (utf8Enc (0x10000 + (hi - 0xD800) * 1024 + (lo - 0xDC00))).toArray)
              else parseStr r2 (acc ++ (utf8Enc hi).toArray)
            | none => none
          | _ => parseStr r2 (acc ++ (utf8Enc hi).toArray)
        else parseStr r2 (acc ++ (utf8Enc hi).toArray)
    else
      let code := if e = 'n' then some 10 else if e = 'r' then some 13 else if e = 't' then some 9
        else if e = 'b' then some 8 else if e = 'f' then some 12 else if e = '"' then some 34
        else if e = '\\' then some 92 else if e = '/' then some 47 else none
      match code with
      | some c => parseStr r (acc.push c)
      | none => none
  | c :: r => parseStr r (acc ++ (utf8Enc c.toNat).toArray)

def takeWhileC (p : Char → Bool) : List Char → List Char × List Char
  | c :: r => if p c then let (a, b) := takeWhileC p r; (c :: a, b) else ([], c :: r)
  | [] => ([], [])

/-- insert with Python dict semantics: a repeated key keeps its first position and takes the last value -/
def dictSet (kvs : List (String × J)) (k : String) (v : J) : List (String × J) :=
  if kvs.any (·.1 == k) then kvs.map fun kv => if kv.1 == k then (k, v) else kv else kvs ++ [(k, v)]

def bytesToString (b : Bytes) : String :=
  match String.fromUTF8? (ByteArray.mk (b.map (·.toUInt8)).toArray) with
  | some s => s
  | none => String.ofList (b.map Char.ofNat)

mutual
/-- what `json.loads` returns -/
partial def parseJ (cs : List Char) : Option (J × List Char) :=
  match skipWs cs with
  | 'n' :: 'u' :: 'l' :: 'l' :: r => some (.null, r)
  | 't' :: 'r' :: 'u' :: 'e' :: r => some (.bool true, r)
  | 'f' :: 'a' :: 'l' :: 's' :: 'e' :: r => some (.bool false, r)
  | 'N' :: 'a' :: 'N' :: r => some (.float "NaN", r)
  | 'I' :: 'n' :: 'f' :: 'i' :: 'n' :: 'i' :: 't' :: 'y' :: r => some (.float "Infinity", r)
  | '-' :: 'I' :: 'n' :: 'f' :: 'i' :: 'n' :: 'i' :: 't' :: 'y' :: r => some (.float "-Infinity", r)
  | '"' :: r => match parseStr r #[] with
    | some (s, r2) => some (.str s, r2)
    | none => none
  | '[' :: r =>
    match skipWs r with
    | ']' :: r2 => some (.list [], r2)
    | r1 => parseElems r1 #[]
  | '{' :: r =>
    match skipWs r with
    | '}' :: r2 => some (.dict [], r2)
    | r1 => parseMembers r1 []
  | c :: r =>
    if c = '-' || c.isDigit then
      let (num, rest) := takeWhileC (fun x => x.isDigit || x = '-' || x = '+' || x = '.' || x = 'e' || x = 'E') (c :: r)
      if num.any (fun x => x = '.' || x = 'e' || x = 'E') then some (.float (String.ofList num), rest)
      else match (String.ofList num).toInt? with
        | some i => some (.int i, rest)
        | none => none
    else none
  | [] => none
partial def parseElems (cs : List Char) (acc : Array J) : Option (J × List Char) :=
  match parseJ cs with
  | none => none
  | some (j, r) =>
    match skipWs r with
    | ',' :: r2 => parseElems r2 (acc.push j)
    | ']' :: r2 => some (.list (acc.push j).toList, r2)
    | _ => none
partial def parseMembers (cs : List Char) (acc : List (String × J)) : Option (J × List Char) :=
  match skipWs cs with
  | '"' :: r =>
    match parseStr r #[] with
    | none => none
    | some (k, r1) =>
      match skipWs r1 with
      | ':' :: r2 =>
        match parseJ r2 with
        | none => none
        | some (j, r3) =>
          let acc' := dictSet acc (bytesToString k) j
          match skipWs r3 with
          | ',' :: r4 => parseMembers r4 acc'
          | '}' :: r4 => some (.dict acc', r4)
          | _ => none
      | _ => none
  | _ => none
end

def parseJson (s : String) : Option J :=
  match parseJ s.toList with
  | some (j, r) => if (skipWs r).isEmpty then some j else none
  | none => none

def findTy (name : String) : Option (Ty × Bool) :=
  match Gen.JsonDict.exported.find? (fun e => e.1 == name) with
  | some e => some (e.2, false)
  | none => match Gen.JsonDict.samples.find? (fun e => e.1 == name) with
    | some e => some (e.2, true)
    | none => none

def encHex (O : Oracles) (t : Ty) (v : V) : String :=
  match encode O t v with
  | some e => hexOrDash e
  | none => "ENC-ERR"

/-- the corruption kinds (last path segment of the kind word) that the property names as malformed input -/
def mustReject : List String := [
  "hex-fixed-minus1byte", "hex-fixed-plus1byte", "hex-bls-minus1byte", "hex-bls-plus1byte",
  "hex-fixed-baddigit", "hex-bls-baddigit", "hex-var-baddigit",
  "hex-fixed-nonascii-digit", "hex-bls-nonascii-digit", "hex-var-nonascii-digit",
  "hex-fixed-space-digit", "hex-bls-space-digit", "hex-var-space-digit",
  "hex-fixed-plus-digit", "hex-bls-plus-digit", "hex-var-plus-digit",
  "hex-fixed-minus-digit", "hex-bls-minus-digit", "hex-var-minus-digit",
  "hex-fixed-odd-minus1digit", "hex-bls-odd-minus1digit", "hex-var-odd-minus1digit",
  "hex-fixed-odd-plus1digit", "hex-bls-odd-plus1digit", "hex-var-odd-plus1digit",
  "hex-bls-intlist-256",
  "int-max+1", "int-min-1", "int-negative", "enum-256", "enum-negative", "enum-unknown",
  "count-minus1", "count-plus1", "key-missing", "null-for-non-optional"]

def handle : List String → String
  | "C20" :: "rt" :: ty :: hex :: rest =>
    match findTy ty with
    | none => "bad-type"
    | some (t, isSample) =>
      let O := C13.oracles (C13.tableOf rest)
      let b := C13.unhex hex
      match (fromBytes O false t b).out with
      | .ok v =>
        match toJson t v with
        | none => "ok NO-JSON #nojson"
        | some j =>
          let prop := if isSample then "n/a" else "ok"
          match fromJson O t j with
          | .ok v' =>
            let h := match encodeForHash O t v' with
              | some p => toHex (sha256 p)
              | none => "undef"
            let same := if v' == v then "same" else "differs"
            s!"ok {renderLine j} {same} {encHex O t v'} {h} prop={prop} #{same}"
          | .error e => s!"ok {renderLine j} FROMJSON-ERR:{e} #fromjson-err"
      | .err => "err #err"
      | .panic s => s!"MODEL-PANIC {s}"
  | "C20" :: "bad" :: ty :: kind :: text :: rest =>
    match findTy ty with
    | none => "bad-type"
    | some (t, _) =>
      let O := C13.oracles (C13.tableOf rest)
      let last := (kind.splitOn "/").getLastD kind
      -- kinds the property names as malformed: the prescription is rejection (`Props/C20.rejects_*`)
      let prop := if mustReject.contains last then "ok" else "n/a"
      match parseJson text with
      | none => "bad-json"
      | some j =>
        match fromJson O t j with
        | .ok v => s!"ok {encHex O t v} prop={prop} #{last}:ok"
        | .error _ => s!"err prop={prop} #{last}:err"
  | _ => "bad-op"

end ChiaModel.Drv.C20
