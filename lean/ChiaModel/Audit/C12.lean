import ChiaModel.Props.C12
#print axioms ChiaModel.C12.root_canonical
#print axioms ChiaModel.C12.root_perm
#print axioms ChiaModel.C12.root_dedup
#print axioms ChiaModel.C12.roots_agree
#print axioms ChiaModel.C12.complete
#print axioms ChiaModel.C12.sound
#print axioms ChiaModel.C12.parse_rejects_trailing
#print axioms ChiaModel.C12.parse_rejects_deep
#print axioms ChiaModel.C12.parse_total
