import ChiaModel.Props.C01
#print axioms ChiaModel.C01.opcode_whitelist
#print axioms ChiaModel.C01.opcode_constants
#print axioms ChiaModel.C01.parseOpcode_spec
#print axioms ChiaModel.C01.validateConditions_iff
