import ChiaModel.Props.C03
#print axioms ChiaModel.C03.locks_iff
#print axioms ChiaModel.C03.check_iff_core
#print axioms ChiaModel.C03.lock_refused_only_if_unsat
#print axioms ChiaModel.C03.abs_height_refused_only_if_unsat
#print axioms ChiaModel.C03.abs_seconds_refused_only_if_unsat
#print axioms ChiaModel.TL.applyCond_locks
#print axioms ChiaModel.TL.condLoop_locks
#print axioms ChiaModel.TL.spendLoop_locks
#print axioms ChiaModel.C03.ephemeral_rule
