import ChiaModel.Props.C14
#print axioms ChiaModel.C14.decode_total
#print axioms ChiaModel.C14.from_bytes_total
#print axioms ChiaModel.C14.trailing_rejected
#print axioms ChiaModel.C14.missing_rejected
#print axioms ChiaModel.C14.no_unit_vec
#print axioms ChiaModel.C14.post_ops_partial
#print axioms ChiaModel.C14.witness_decodes_and_digest_panics
#print axioms ChiaModel.C14.post_ops_full_false
#print axioms ChiaModel.C14.panic_sites_reviewed
#print axioms ChiaModel.C14.reservation_bound
#print axioms ChiaModel.C14.alloc_bound
#print axioms ChiaModel.C14.elements_bounded
#print axioms ChiaModel.C14.generated_alloc_bound
