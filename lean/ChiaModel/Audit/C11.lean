import ChiaModel.Props.C11
#print axioms ChiaModel.C11.canonNat_spec
#print axioms ChiaModel.C11.u64ToBytes_canon
#print axioms ChiaModel.C11.coinIdAmount_canon
#print axioms ChiaModel.C11.encoders_agree
#print axioms ChiaModel.C11.clvmBytesLen_ok
#print axioms ChiaModel.C11.sanitizeUint_ok
#print axioms ChiaModel.C11.sanitizeUint_complete
#print axioms ChiaModel.C11.sanitizeUint_neg
#print axioms ChiaModel.C11.sanitizeUint_err
#print axioms ChiaModel.C11.sanitizeUint_pos
#print axioms ChiaModel.C11.encodeNumber_nonneg
#print axioms ChiaModel.C11.canon_unique
#print axioms ChiaModel.C11.sanitizeUint_canon
#print axioms ChiaModel.C11.encodeNumber_neg
#print axioms ChiaModel.C11.decodeNumber_value
