import ChiaModel.Props.C08
#print axioms ChiaModel.C08.bundle_path_eq_block_path
#print axioms ChiaModel.C08.bundle_path_eq_block_path_partial
#print axioms ChiaModel.C08.bundle_path_eq_block_path_reversed_partial
#print axioms ChiaModel.C08.generator_length
#print axioms ChiaModel.C08.base_cost_offset
#print axioms ChiaModel.C11.clvmBytesLen_ok
#print axioms ChiaModel.C04.limit_exact
#print axioms ChiaModel.C04.runSpendbundle_limit_exact
#print axioms ChiaModel.C02.spendbundle_invariants
