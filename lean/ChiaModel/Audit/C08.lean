import ChiaModel.Props.C08
#print axioms ChiaModel.C11.clvmBytesLen_ok
#print axioms ChiaModel.C04.limit_exact
