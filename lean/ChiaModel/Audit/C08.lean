import ChiaModel.Props.C08
#print axioms ChiaModel.C08.generator_length
#print axioms ChiaModel.C08.base_cost_offset
#print axioms ChiaModel.C11.clvmBytesLen_ok
#print axioms ChiaModel.C04.limit_exact
