import ChiaModel.Props.C07
#print axioms ChiaModel.C07.legacy_accepts_native_accepts
#print axioms ChiaModel.C07.legacy_accepts_native_accepts_size
#print axioms ChiaModel.C07.native_accepts_legacy
#print axioms ChiaModel.C07.native_rejects_legacy_rejects
#print axioms ChiaModel.C07.simple_generator_rules
#print axioms ChiaModel.C07.legacy_cost
#print axioms ChiaModel.C04.limit_exact
#print axioms ChiaModel.C04.native_limit_exact
#print axioms ChiaModel.C04.legacy_limit_exact
#print axioms ChiaModel.C02.accepted_invariants
#print axioms ChiaModel.C02.native_invariants
#print axioms ChiaModel.C02.legacy_invariants
