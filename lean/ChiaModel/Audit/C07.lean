import ChiaModel.Props.C07
#print axioms ChiaModel.C07.simple_generator_rules
#print axioms ChiaModel.C07.legacy_cost
#print axioms ChiaModel.C04.limit_exact
#print axioms ChiaModel.C02.accepted_invariants
