import ChiaModel.Props.C19
#print axioms ChiaModel.C19.ff_shape
#print axioms ChiaModel.C19.ff_shape_proper
#print axioms ChiaModel.C19.ff_shape_full_false
#print axioms ChiaModel.C19.witness_accepted
#print axioms ChiaModel.C19.ff_guards
#print axioms ChiaModel.C19.ff_iff
#print axioms ChiaModel.C19.ff_parent_same_puzzle
#print axioms ChiaModel.C19.ff_corruption
#print axioms ChiaModel.C19.ff_preserves
#print axioms ChiaModel.C19.fp_stream
#print axioms ChiaModel.C19.fp_injective
#print axioms ChiaModel.C19.fp_injective_accepted
#print axioms ChiaModel.C19.dedup_flag_iff
#print axioms ChiaModel.C19.dedup_flag
#print axioms ChiaModel.C19.dedup_flag_bundle
