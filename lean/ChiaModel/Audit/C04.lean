import ChiaModel.Props.C04
#print axioms ChiaModel.C04.limit_exact
#print axioms ChiaModel.C04.native_limit_exact
#print axioms ChiaModel.C04.legacy_limit_exact
#print axioms ChiaModel.C04.runSpendbundle_limit_exact
#print axioms ChiaModel.C04.cost_le_limit
#print axioms ChiaModel.C04.cost_is_table_sum
#print axioms ChiaModel.C04.table_values
#print axioms ChiaModel.C04.preCharge_table
#print axioms ChiaModel.C04.unknown_cost_closed_form
#print axioms ChiaModel.C04.unknown_cost_fn
#print axioms ChiaModel.C04.native_cost_decomposition
#print axioms ChiaModel.C04.runSpendbundle_cost_decomposition
