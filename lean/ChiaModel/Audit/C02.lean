import ChiaModel.Props.C02
#print axioms ChiaModel.C02.conservation
#print axioms ChiaModel.C02.accepted_invariants
#print axioms ChiaModel.C02.native_invariants
#print axioms ChiaModel.C02.spendbundle_invariants
#print axioms ChiaModel.C02.legacy_invariants
#print axioms ChiaModel.C11.canon_unique
#print axioms ChiaModel.C11.coinIdAmount_canon
