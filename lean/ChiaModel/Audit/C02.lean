import ChiaModel.Props.C02
#print axioms ChiaModel.C02.conservation
#print axioms ChiaModel.C02.accepted_invariants
#print axioms ChiaModel.C11.canon_unique
#print axioms ChiaModel.C11.coinIdAmount_canon
