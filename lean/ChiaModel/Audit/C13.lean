import ChiaModel.Props.C13
#print axioms ChiaModel.C13.roundtrip
#print axioms ChiaModel.C13.canonical
#print axioms ChiaModel.C13.trusted_codec
#print axioms ChiaModel.C13.encode_injective
#print axioms ChiaModel.C13.hash_is_sha_of_encoding
#print axioms ChiaModel.C13.encodeForHash_eq_encode
#print axioms ChiaModel.C13.encodeForHash_pos
#print axioms ChiaModel.C13.trusted_agrees
#print axioms ChiaModel.C13.from_bytes_iff
#print axioms ChiaModel.C13.from_bytes_to_bytes
#print axioms ChiaModel.C13.to_bytes_from_bytes
#print axioms ChiaModel.C13.descriptors_closed
#print axioms ChiaModel.C13.generated_types_codec
#print axioms ChiaModel.C13.clvm_scan_contract
