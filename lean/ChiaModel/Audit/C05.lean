import ChiaModel.Props.C05
#print axioms ChiaModel.C05.distinct_consts
#print axioms ChiaModel.C05.opcode_values
#print axioms ChiaModel.C05.suffix_eq_spec
#print axioms ChiaModel.C05.finalMessage_spec
#print axioms ChiaModel.C05.domain_separation
#print axioms ChiaModel.C05.unsafe_separated
#print axioms ChiaModel.C05.pairs_spec
#print axioms ChiaModel.C05.sig_needed
#print axioms ChiaModel.C05.sig_sufficient
#print axioms ChiaModel.C05.bad_key_rejected
