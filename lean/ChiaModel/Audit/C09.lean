import ChiaModel.Props.C09
#print axioms ChiaModel.C09.additions_removals_spec
#print axioms ChiaModel.C09.removals_spec
#print axioms ChiaModel.C09.additions_spec
#print axioms ChiaModel.C09.lookup_spec
#print axioms ChiaModel.C09.coinspends_rebuild
#print axioms ChiaModel.C09.coinspends_rebuild_reversed
#print axioms ChiaModel.C09.bundle_additions
#print axioms ChiaModel.C09.bundle_additions_of_limit
#print axioms ChiaModel.C02.native_invariants
#print axioms ChiaModel.C09.withconds_coinspends
#print axioms ChiaModel.C09.withconds_of_accept
#print axioms ChiaModel.C09.listing_spec
#print axioms ChiaModel.C09.listing_create_coin
