import ChiaModel.Props.C09
#print axioms ChiaModel.C02.accepted_invariants
