import ChiaModel.Props.C09
#print axioms ChiaModel.C09.additions_removals_spec
#print axioms ChiaModel.C09.removals_spec
#print axioms ChiaModel.C09.additions_spec
#print axioms ChiaModel.C09.lookup_spec
#print axioms ChiaModel.C02.native_invariants
