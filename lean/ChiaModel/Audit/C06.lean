import ChiaModel.Props.C06
#print axioms ChiaModel.C06.strict_monotone
#print axioms ChiaModel.C06.strict_flags_only_restrict
#print axioms ChiaModel.C06.strict_mask_only_restrict
#print axioms ChiaModel.C06.strictMask_values
#print axioms ChiaModel.C06.cost_strict_equal
#print axioms ChiaModel.C06.perm_conditions_partial
#print axioms ChiaModel.C06.perm_accept_iff_partial
#print axioms ChiaModel.C06.perm_accept
#print axioms ChiaModel.C06.perm_conditions_fields_partial
#print axioms ChiaModel.C06.perm_conditions_loop_partial
#print axioms ChiaModel.C06.wrapF_clear_ff
#print axioms ChiaModel.C06.perm_conditions_spend_partial
#print axioms ChiaModel.C06.condLoop_factorisation
#print axioms ChiaModel.C06.perm_spends
#print axioms ChiaModel.C06.perm_spends_accept_iff
#print axioms ChiaModel.C06.perm_conditions_bundle
#print axioms ChiaModel.C06.perm_conditions_bundle_accept_iff
