import ChiaModel.Drv.C11
open ChiaModel.Drv

def dispatch (line : String) : String :=
  match words line with
  | "C11" :: rest => C11.handle ("C11" :: rest)
  | _ => "bad-op"

partial def loop (h : IO.FS.Stream) (out : IO.FS.Stream) : IO Unit := do
  let line ← h.getLine
  if line.isEmpty then return ()
  out.putStrLn (dispatch line)
  loop h out

def main : IO Unit := do
  let out ← IO.getStdout
  loop (← IO.getStdin) out
  out.flush
