import ChiaModel.Drv.C11
import ChiaModel.Drv.C01
import ChiaModel.Drv.C03
import ChiaModel.Drv.C05
import ChiaModel.Drv.C07
import ChiaModel.Drv.C08
import ChiaModel.Drv.C09
import ChiaModel.Drv.C10
import ChiaModel.Drv.C12
import ChiaModel.Drv.C13
import ChiaModel.Drv.C16
import ChiaModel.Drv.C15
import ChiaModel.Drv.C17
import ChiaModel.Drv.C18
import ChiaModel.Drv.C19
import ChiaModel.Drv.C20
import ChiaModel.Spec.CostTable
open ChiaModel.Drv

def dispatch (line : String) : String :=
  match words line with
  | "C11" :: rest => C11.handle ("C11" :: rest)
  | "C01" :: rest => C01.handle ("C01" :: rest)
  | "C03" :: rest => C03.handle ("C03" :: rest)
  | "C05" :: rest => C05.handle ("C05" :: rest)
  | "C06" :: _kind :: vis :: f1 :: f2 :: pks :: t1 :: t2 :: rest =>
    -- both runs by the model; the property (strict ⇒ lenient with equal summary; order-free verdict,
    -- cost and aggregates) is what Props/C06 proves about the model.  Optional 9th word: the cost limit
    -- of both runs (default: the block maximum)
    let lim := match rest with | l :: _ => l | [] => "11000000000"
    let a := C01.handle ["C01", vis, f1, lim, "0", pks, t1]
    let b := C01.handle ["C01", vis, f2, lim, "0", pks, t2]
    s!"A={a} || B={b} || prop=ok"
  | "C07" :: rest => C07.handle ("C07" :: rest)
  | "C08" :: rest => C08.handle ("C08" :: rest)
  | "C09" :: rest => C09.handle ("C09" :: rest)
  | "C10" :: rest => C10.handle ("C10" :: rest)
  | "C12" :: rest => C12.handle ("C12" :: rest)
  | "C16" :: rest => C16.handle ("C16" :: rest)
  | "C13" :: rest => C13.handle ("C13" :: rest)
  | "C14" :: rest => C13.handle ("C14" :: rest)
  | "C15" :: rest => C15.handle ("C15" :: rest)
  | "C17" :: rest => C17.handle ("C17" :: rest)
  | "C18" :: rest => C18.handle ("C18" :: rest)
  | "C19" :: rest => C19.handle ("C19" :: rest)
  | "C20" :: rest => C20.handle ("C20" :: rest)
  | ["C04", "ucc", op] =>
    -- the documented closed form (Props/C04 proves the table regenerated from the source equal to it)
    toString (ChiaModel.Spec.unknownConditionCost (natArg op))
  | _ => "bad-op"

partial def loop (h : IO.FS.Stream) (out : IO.FS.Stream) : IO Unit := do
  let line ← h.getLine
  if line.isEmpty then return ()
  out.putStrLn (dispatch line)
  loop h out

def main : IO Unit := do
  let out ← IO.getStdout
  loop (← IO.getStdin) out
  out.flush
