import ChiaModel.Drv.C11
import ChiaModel.Drv.C01
import ChiaModel.Drv.C03
import ChiaModel.Drv.C05
import ChiaModel.Spec.CostTable
open ChiaModel.Drv

def dispatch (line : String) : String :=
  match words line with
  | "C11" :: rest => C11.handle ("C11" :: rest)
  | "C01" :: rest => C01.handle ("C01" :: rest)
  | "C03" :: rest => C03.handle ("C03" :: rest)
  | "C05" :: rest => C05.handle ("C05" :: rest)
  | ["C04", "ucc", op] =>
    -- the documented closed form (Props/C04 proves the table regenerated from the source equal to it)
    toString (ChiaModel.Spec.unknownConditionCost (natArg op))
  | _ => "bad-op"

partial def loop (h : IO.FS.Stream) (out : IO.FS.Stream) : IO Unit := do
  let line ← h.getLine
  if line.isEmpty then return ()
  out.putStrLn (dispatch line)
  loop h out

def main : IO Unit := do
  let out ← IO.getStdout
  loop (← IO.getStdin) out
  out.flush
